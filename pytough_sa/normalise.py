"""Canonical form of the analysed program.

Every module is rewritten, after parsing and before any rule looks at it, into a form in which a handful of
behaviour-preserving spellings coincide, so that no rule can tell them apart (and none can raise an alarm over
the difference):

  N1  `if not c: B else: A`             ->  `if c: A else: B`            (any if with an else / elif part)
  N2  `a > b`, `a >= b` (one operator)   ->  `b < a`, `b <= a`             (operands free of calls: evaluation order is kept
                                                                           observable only through calls)
  N3  `t = E` immediately followed by `return t` (t a local of the function) ->  `return E`
  N4  `n = n + k` / `n = n - k` (k a numeric literal)                      ->  `n += k` / `n -= k`
  N5  `pass`, bare constants inside a block                                ->  removed
  N6  `t = E` followed by a statement whose first-evaluated operand is the only use of t  ->  E substituted for t
  N7  guard clause `if c: ...; return X` followed by the rest of the block   ->  `if c: ...; return X  else: <rest>`
      (so early returns and the nested if/else they abbreviate, and flattened elif chains, coincide; N1 then applies)

  N8  calls of private helpers (`_name(...)`, `self._name(...)`) are replaced by the helper's body (see below)

Line numbers of the original statements are kept for reports."""
import ast
import copy

FLIP = {ast.Gt: ast.Lt, ast.GtE: ast.LtE}


def _pure(e):
    return not any(isinstance(x, (ast.Call, ast.Await, ast.Yield, ast.YieldFrom, ast.NamedExpr)) for x in ast.walk(e))


def _sel_simple(e):
    if isinstance(e, (ast.Name, ast.Constant)): return True
    if isinstance(e, ast.Attribute): return _sel_simple(e.value)
    if isinstance(e, ast.UnaryOp) and isinstance(e.op, (ast.USub, ast.UAdd)): return _sel_simple(e.operand)
    return False


class _Norm(ast.NodeTransformer):
    def visit_If(self, node):
        self.generic_visit(node)
        t = node.test
        if isinstance(t, ast.UnaryOp) and isinstance(t.op, ast.Not) and node.orelse:
            new = ast.If(test=t.operand, body=node.orelse, orelse=node.body)
            return ast.copy_location(new, node)
        return node

    def visit_If_only(self, node):
        """N1 on an already-normalised node (no recursion)"""
        t = node.test
        if isinstance(t, ast.UnaryOp) and isinstance(t.op, ast.Not) and node.orelse:
            return ast.copy_location(ast.If(test=t.operand, body=node.orelse, orelse=node.body), node)
        return node

    def visit_IfExp(self, node):
        self.generic_visit(node)
        t = node.test
        if isinstance(t, ast.UnaryOp) and isinstance(t.op, ast.Not):
            return ast.copy_location(ast.IfExp(test=t.operand, body=node.orelse, orelse=node.body), node)
        return node

    def visit_Compare(self, node):
        self.generic_visit(node)
        if len(node.ops) == 1 and type(node.ops[0]) in FLIP and _pure(node.left) and _pure(node.comparators[0]):
            new = ast.Compare(left=node.comparators[0], ops=[FLIP[type(node.ops[0])]()], comparators=[node.left])
            return ast.copy_location(new, node)
        return node

    # N19: a call of a function of the library written with keyword arguments is the positional call, when every definition of
    # that name in the library has the same parameter list and the keywords fill the next parameters in order
    def _positional(self, node):
        fn = node.func.id if isinstance(node.func, ast.Name) else (node.func.attr if isinstance(node.func, ast.Attribute) else None)
        sig = LIBRARY_SIGNATURES.get(fn)
        if not sig or not node.keywords or any(k.arg is None for k in node.keywords) or any(isinstance(a, ast.Starred) for a in node.args): return node
        kws = dict((k.arg, k.value) for k in node.keywords)
        if len(kws) != len(node.keywords): return node
        args = list(node.args)
        i = len(args)
        while i < len(sig) and sig[i] in kws:
            args.append(kws.pop(sig[i])); i += 1
        if kws: return node            # a keyword that does not continue the positional prefix: leave the call as written
        node.args, node.keywords = args, []
        return node

    # N9: comprehension spelling.  A reducer applied to a generator expression is written with the list comprehension
    # (sum(x for ..) -> sum([x for ..])); a set / dict comprehension is written as set([..]) / dict([(k, v) ..]).
    REDUCERS = ('sum', 'min', 'max', 'any', 'all', 'set', 'tuple', 'sorted', 'list', 'frozenset', 'dict', 'join')

    def visit_Call(self, node):
        self.generic_visit(node)
        node = self._positional(node)
        fn = node.func.id if isinstance(node.func, ast.Name) else (node.func.attr if isinstance(node.func, ast.Attribute) else None)
        if fn in self.REDUCERS and node.args and isinstance(node.args[0], ast.GeneratorExp):
            g = node.args[0]
            node.args[0] = ast.copy_location(ast.ListComp(elt=g.elt, generators=g.generators), g)
        # N14: X.get(K, D) is `X[K] if K in X else D` (simple X, K, D)
        if isinstance(node.func, ast.Attribute) and fn == 'get' and len(node.args) in (1, 2) and not node.keywords and _sel_simple(node.func.value) \
           and _sel_simple(node.args[0]) and (len(node.args) == 1 or _sel_simple(node.args[1])):
            X, K = node.func.value, node.args[0]
            D = node.args[1] if len(node.args) == 2 else ast.copy_location(ast.Constant(value=None), node)
            test = ast.copy_location(ast.Compare(left=K, ops=[ast.In()], comparators=[X]), node)
            sub = ast.copy_location(ast.Subscript(value=copy.deepcopy(X), slice=copy.deepcopy(K), ctx=ast.Load()), node)
            return ast.copy_location(ast.IfExp(test=test, body=sub, orelse=D), node)
        # N21: `any([b is X for b in L])` (an identity search) is the membership test `X in L`
        if isinstance(node.func, ast.Name) and fn == 'any' and len(node.args) == 1 and not node.keywords and isinstance(node.args[0], ast.ListComp):
            lc = node.args[0]
            if len(lc.generators) == 1 and not lc.generators[0].ifs and isinstance(lc.generators[0].target, ast.Name) and isinstance(lc.elt, ast.Compare) \
               and len(lc.elt.ops) == 1 and isinstance(lc.elt.ops[0], ast.Is):
                v_ = lc.generators[0].target.id
                a_, b_ = lc.elt.left, lc.elt.comparators[0]
                other = b_ if (isinstance(a_, ast.Name) and a_.id == v_) else (a_ if (isinstance(b_, ast.Name) and b_.id == v_) else None)
                if other is not None and _sel_simple(other) and not any(isinstance(x, ast.Name) and x.id == v_ for x in ast.walk(other)):
                    return ast.copy_location(ast.Compare(left=other, ops=[ast.In()], comparators=[lc.generators[0].iter]), node)
        if isinstance(node.func, ast.Name) and fn == 'getattr' and len(node.args) == 2 and not node.keywords and isinstance(node.args[1], ast.Constant) \
           and isinstance(node.args[1].value, str) and node.args[1].value.isidentifier() and _sel_simple(node.args[0]):
            return ast.copy_location(ast.Attribute(value=node.args[0], attr=node.args[1].value, ctx=ast.Load()), node)
        return node

    # N11: the two-element selector `[a, b][cond]` is the conditional expression `b if cond else a` (a, b simple)
    def visit_Subscript(self, node):
        self.generic_visit(node)
        v, c = node.value, node.slice
        if isinstance(node.ctx, ast.Load) and isinstance(v, (ast.List, ast.Tuple)) and len(v.elts) == 2 and not isinstance(c, (ast.Constant, ast.Slice)) \
           and all(_sel_simple(x) for x in v.elts):
            return self.visit_IfExp_only(ast.copy_location(ast.IfExp(test=c, body=v.elts[1], orelse=v.elts[0]), node))
        return node

    def visit_IfExp_only(self, node):
        t = node.test
        if isinstance(t, ast.UnaryOp) and isinstance(t.op, ast.Not):
            return ast.copy_location(ast.IfExp(test=t.operand, body=node.orelse, orelse=node.body), node)
        return node

    # N12: getattr(x, 'name') / setattr(x, 'name', v) with a literal identifier are the attribute access / store
    def visit_Expr(self, node):
        self.generic_visit(node)
        c = node.value
        if isinstance(c, ast.Call) and isinstance(c.func, ast.Name) and c.func.id == 'setattr' and len(c.args) == 3 and not c.keywords and \
           isinstance(c.args[1], ast.Constant) and isinstance(c.args[1].value, str) and c.args[1].value.isidentifier() and _sel_simple(c.args[0]):
            tgt = ast.copy_location(ast.Attribute(value=c.args[0], attr=c.args[1].value, ctx=ast.Store()), c)
            return ast.copy_location(ast.Assign(targets=[tgt], value=c.args[2]), node)
        return node

    # N17: `a <= x and x <= b` with a call-free x is the chained comparison `a <= x <= b`
    def visit_BoolOp(self, node):
        self.generic_visit(node)
        if not isinstance(node.op, ast.And): return node
        vals = list(node.values)
        k = 0
        while k + 1 < len(vals):
            a, b = vals[k], vals[k + 1]
            if isinstance(a, ast.Compare) and isinstance(b, ast.Compare) and all(isinstance(o, (ast.Lt, ast.LtE)) for o in a.ops + b.ops) and \
               _pure(a.comparators[-1]) and ast.dump(a.comparators[-1]) == ast.dump(b.left):
                vals[k:k + 2] = [ast.copy_location(ast.Compare(left=a.left, ops=a.ops + b.ops, comparators=a.comparators + b.comparators), a)]
            else: k += 1
        if len(vals) == 1: return vals[0]
        node.values = vals
        return node

    # N16: `try: x = D[K]` / `except KeyError: A` / `else: B`  is  `if K in D: x = D[K]; B` / `else: A` (simple D and K)
    def visit_Try(self, node):
        self.generic_visit(node)
        if len(node.body) == 1 and len(node.handlers) == 1 and not node.finalbody:
            st, h = node.body[0], node.handlers[0]
            if isinstance(st, ast.Assign) and len(st.targets) == 1 and isinstance(st.targets[0], ast.Name) and isinstance(st.value, ast.Subscript) \
               and _sel_simple(st.value.value) and _sel_simple(st.value.slice) and not isinstance(st.value.slice, ast.Constant) \
               and isinstance(h.type, ast.Name) and h.type.id == 'KeyError' and h.name is None and h.body:
                test = ast.copy_location(ast.Compare(left=copy.deepcopy(st.value.slice), ops=[ast.In()], comparators=[copy.deepcopy(st.value.value)]), node)
                new = ast.copy_location(ast.If(test=test, body=[st] + list(node.orelse), orelse=list(h.body)), node)
                return new
        return node

    def visit_SetComp(self, node):
        self.generic_visit(node)
        lc = ast.copy_location(ast.ListComp(elt=node.elt, generators=node.generators), node)
        return ast.copy_location(ast.Call(func=ast.copy_location(ast.Name(id='set', ctx=ast.Load()), node), args=[lc], keywords=[]), node)

    def visit_DictComp(self, node):
        self.generic_visit(node)
        tup = ast.copy_location(ast.Tuple(elts=[node.key, node.value], ctx=ast.Load()), node)
        lc = ast.copy_location(ast.ListComp(elt=tup, generators=node.generators), node)
        return ast.copy_location(ast.Call(func=ast.copy_location(ast.Name(id='dict', ctx=ast.Load()), node), args=[lc], keywords=[]), node)

    def visit_Assign(self, node):
        self.generic_visit(node)
        if len(node.targets) == 1 and isinstance(node.targets[0], ast.Name) and isinstance(node.value, ast.BinOp) and \
           isinstance(node.value.op, (ast.Add, ast.Sub)) and isinstance(node.value.left, ast.Name) and \
           node.value.left.id == node.targets[0].id and isinstance(node.value.right, ast.Constant) and \
           isinstance(node.value.right.value, (int, float)) and not isinstance(node.value.right.value, bool):
            new = ast.AugAssign(target=ast.Name(id=node.targets[0].id, ctx=ast.Store()), op=node.value.op, value=node.value.right)
            return ast.copy_location(new, node)
        return node

    def _block(self, stmts):
        # N5: `pass` and bare constant expressions (other than a leading docstring) carry no behaviour
        keep = [s for k, s in enumerate(stmts) if not (isinstance(s, ast.Pass) or
                (k > 0 and isinstance(s, ast.Expr) and isinstance(s.value, ast.Constant)))]
        stmts = keep if keep else stmts[:1]
        # N7: a guard clause `if c: <...; return/raise/continue/break>` followed by more statements is the if/else it abbreviates
        EXIT = (ast.Return, ast.Raise, ast.Continue, ast.Break)
        for k, st in enumerate(stmts[:-1]):
            if not (isinstance(st, ast.If) and st.body): continue
            b_exits = isinstance(st.body[-1], EXIT)
            e_exits = bool(st.orelse) and isinstance(st.orelse[-1], EXIT)
            if b_exits and not e_exits:
                # what follows only runs when the test is false: it belongs to the else branch
                rest = self._block(list(st.orelse) + stmts[k + 1:])
                new = ast.copy_location(ast.If(test=st.test, body=st.body, orelse=rest), st)
                stmts = stmts[:k] + [self.visit_If_only(new)]
                break
            if e_exits and not b_exits:
                rest = self._block(list(st.body) + stmts[k + 1:])
                new = ast.copy_location(ast.If(test=st.test, body=rest, orelse=st.orelse), st)
                stmts = stmts[:k] + [self.visit_If_only(new)]
                break
        # N20: `x = D.get(K)` (arrived as `D[K] if K in D else None`: N14) followed by `if x is not None: B else: E` is
        # `if K in D: x = D[K]; B` / `else: x = None; E` (the library never stores None as a value of its by-name dictionaries)
        for k, st in enumerate(stmts[:-1]):
            nx = stmts[k + 1]
            if isinstance(st, ast.Assign) and len(st.targets) == 1 and isinstance(st.targets[0], ast.Name) and isinstance(st.value, ast.IfExp) and \
               isinstance(st.value.test, ast.Compare) and len(st.value.test.ops) == 1 and isinstance(st.value.test.ops[0], ast.In) and \
               isinstance(st.value.orelse, ast.Constant) and st.value.orelse.value is None and isinstance(st.value.body, ast.Subscript) and \
               isinstance(nx, ast.If) and isinstance(nx.test, ast.Compare) and len(nx.test.ops) == 1 and isinstance(nx.test.ops[0], (ast.IsNot, ast.Is)) and \
               isinstance(nx.test.left, ast.Name) and nx.test.left.id == st.targets[0].id and isinstance(nx.test.comparators[0], ast.Constant) and \
               nx.test.comparators[0].value is None:
                x = st.targets[0].id
                have = [ast.copy_location(ast.Assign(targets=[ast.Name(id=x, ctx=ast.Store())], value=st.value.body), st)]
                lack = [ast.copy_location(ast.Assign(targets=[ast.Name(id=x, ctx=ast.Store())], value=st.value.orelse), st)]
                pos, neg = (nx.body, nx.orelse) if isinstance(nx.test.ops[0], ast.IsNot) else (nx.orelse, nx.body)
                new = ast.copy_location(ast.If(test=st.value.test, body=have + list(pos), orelse=lack + list(neg)), nx)
                stmts = stmts[:k] + [ast.fix_missing_locations(new)] + stmts[k + 2:]
                return self._block(stmts)
        # N18: `try: ...; return X` / `except E: pass` followed by more statements: what follows only runs when E was caught,
        # so it is the handler's body (the nested form of a chain of fallback attempts)
        for k, st in enumerate(stmts[:-1]):
            if isinstance(st, ast.Try) and st.body and isinstance(st.body[-1], (ast.Return, ast.Raise)) and not st.orelse and not st.finalbody \
               and len(st.handlers) == 1 and st.handlers[0].name is None and \
               all(isinstance(x, ast.Pass) or (isinstance(x, ast.Expr) and isinstance(x.value, ast.Constant)) for x in st.handlers[0].body):
                h = st.handlers[0]
                rest = self._block(stmts[k + 1:])
                newh = ast.copy_location(ast.ExceptHandler(type=h.type, name=None, body=rest), h)
                new = ast.copy_location(ast.Try(body=st.body, handlers=[newh], orelse=[], finalbody=[]), st)
                stmts = stmts[:k] + [new]
                break
        # N6: a temporary bound once to an expression and used once, as the first thing the next statement evaluates
        stmts = self._inline_temps(stmts)
        out = []
        i = 0
        while i < len(stmts):
            s = stmts[i]
            nxt = stmts[i + 1] if i + 1 < len(stmts) else None
            if isinstance(s, ast.Assign) and len(s.targets) == 1 and isinstance(s.targets[0], ast.Name) and \
               isinstance(nxt, ast.Return) and isinstance(nxt.value, ast.Name) and nxt.value.id == s.targets[0].id and \
               s.targets[0].id not in self._outer:
                out.append(ast.copy_location(ast.Return(value=s.value), s))
                i += 2; continue
            out.append(s); i += 1
        return out

    def _inline_temps(self, stmts):
        out = list(stmts)
        changed = True
        while changed:
            changed = False
            for i in range(len(out) - 1):
                s, nxt = out[i], out[i + 1]
                if not (isinstance(s, ast.Assign) and len(s.targets) == 1 and isinstance(s.targets[0], ast.Name)): continue
                t = s.targets[0].id
                if t in self._outer or self._count.get(t, 0) != 2 or not isinstance(nxt, (ast.Assign, ast.AugAssign, ast.Expr, ast.Return)): continue
                if isinstance(nxt, ast.AugAssign): continue
                val = nxt.value
                if val is None: continue
                first = _first_leaf(val)
                if isinstance(first, ast.Name) and first.id == t and isinstance(first.ctx, ast.Load):
                    new = _Replace(first, s.value).visit(nxt)
                    out[i:i + 2] = [new]
                    changed = True
                    break
                # a plain copy of another local / a constant can be substituted wherever the next statement uses it
                if isinstance(s.value, (ast.Name, ast.Constant)):
                    uses = [x for x in ast.walk(val) if isinstance(x, ast.Name) and x.id == t and isinstance(x.ctx, ast.Load)]
                    inner_scopes = any(isinstance(x, (ast.Lambda, ast.GeneratorExp, ast.ListComp, ast.SetComp, ast.DictComp)) for x in ast.walk(val))
                    if len(uses) == 1 and not inner_scopes:
                        new = _Replace(uses[0], s.value).visit(nxt)
                        out[i:i + 2] = [new]
                        changed = True
                        break
        return out

    def visit_FunctionDef(self, node):
        # count name occurrences per function for N3 (store + one load)
        # N3 is safe for any purely local name: the function returns right after the assignment
        saved = getattr(self, '_outer', set())
        outer = set()
        for x in ast.walk(node):
            if isinstance(x, (ast.Global, ast.Nonlocal)): outer.update(x.names)
        self._outer = outer
        saved_c = getattr(self, '_count', {})
        cnt = {}
        for x in ast.walk(node):
            if isinstance(x, ast.Name): cnt[x.id] = cnt.get(x.id, 0) + 1
        self._count = cnt
        self.generic_visit(node)
        for n in ast.walk(node):
            for f in ('body', 'orelse', 'finalbody'):
                b = getattr(n, f, None)
                if isinstance(b, list) and b and isinstance(b[0], ast.stmt): setattr(n, f, self._block(b))
            for h in getattr(n, 'handlers', []): h.body = self._block(h.body)
        self._outer = saved
        self._count = saved_c
        return node


def _first_leaf(e):
    """the sub-expression Python evaluates first"""
    while True:
        if isinstance(e, ast.BinOp): e = e.left
        elif isinstance(e, ast.Compare): e = e.left
        elif isinstance(e, ast.BoolOp): e = e.values[0]
        elif isinstance(e, ast.UnaryOp): e = e.operand
        elif isinstance(e, ast.Subscript): e = e.value
        elif isinstance(e, ast.Attribute): e = e.value
        elif isinstance(e, ast.Call):
            if isinstance(e.func, ast.Name):
                if not e.args: return e
                e = e.args[0]
            else: e = e.func
        elif isinstance(e, (ast.Tuple, ast.List)) and e.elts: e = e.elts[0]
        else: return e


class _Replace(ast.NodeTransformer):
    def __init__(self, target, repl, by_identity=False): self.target, self.repl, self.by_identity = target, repl, by_identity
    def visit_Name(self, n): return self.repl if n is self.target else n
    def visit_Call(self, n):
        if self.by_identity and n is self.target: return self.repl
        self.generic_visit(n); return n


def _first_call(e):
    """the first Call the expression evaluates, provided nothing with a possible effect is evaluated before it"""
    if isinstance(e, ast.Call):
        inner = None
        for part in ([e.func.value] if isinstance(e.func, ast.Attribute) else []) + list(e.args):
            inner = _first_call(part)
            if inner is not None: return inner
            if not _simple(part): return None
        return e
    if isinstance(e, (ast.Tuple, ast.List)):
        for x in e.elts:
            c = _first_call(x)
            if c is not None: return c
            if not _simple(x): return None
        return None
    if isinstance(e, ast.BinOp):
        c = _first_call(e.left)
        if c is not None: return c
        return _first_call(e.right) if _simple(e.left) else None
    if isinstance(e, ast.Compare):
        c = _first_call(e.left)
        if c is not None: return c
        return _first_call(e.comparators[0]) if _simple(e.left) and len(e.comparators) == 1 else None
    if isinstance(e, ast.UnaryOp): return _first_call(e.operand)
    if isinstance(e, ast.Subscript): return _first_call(e.value)
    if isinstance(e, ast.Attribute): return _first_call(e.value)
    return None


def _new_closures(tree, modname):
    """{id(outer FunctionDef): [nested FunctionDef, ...]} for nested functions that are not in the baseline list of the
    module (vocab.json, written by tools/gen_vocab.py): local helpers introduced by a later edit"""
    if modname is None: return {}
    try:
        from . import vocab
        base = vocab.nested_baseline().get(modname)
    except Exception:
        base = None
    if base is None: return {}
    base = set(base)
    out = {}
    for f in ast.walk(tree):
        if isinstance(f, ast.FunctionDef):
            for g in ast.walk(f):
                if isinstance(g, ast.FunctionDef) and g is not f and ('%s.%s' % (f.name, g.name)) not in base:
                    # only closures defined directly in f (not inside another nested def)
                    out.setdefault(id(f), []).append(g)
    return out


# ---------------------------------------------------------------------------
# N10: a `for` over a short literal table is the sequence of its iterations
#
# `for tmax, reg, fn in ((350., 1, sat), (590., 3, b23p)): if t <= tmax: return ...` is what "replace the if-chain by a
# table" produces.  The loop is replaced by one copy of its body per row with the targets substituted, when the table is a
# literal (or a local bound once to one) of at most 8 rows of simple expressions, the body neither rebinds a target nor
# contains break / continue, and there is no else clause.

class _SubstNames(ast.NodeTransformer):
    def __init__(self, mapping): self.mapping = mapping
    def visit_Name(self, n):
        if isinstance(n.ctx, ast.Load) and n.id in self.mapping: return copy.deepcopy(self.mapping[n.id])
        return n
    def visit_Call(self, n):
        self.generic_visit(n)
        # (lambda a: E)(x) with simple x  ->  E[a := x]
        f = n.func
        if isinstance(f, ast.Lambda) and not n.keywords and len(n.args) == len(f.args.args) and all(_simple_elt(x) and not isinstance(x, ast.Lambda) for x in n.args):
            return _SubstNames(dict((p.arg, x) for p, x in zip(f.args.args, n.args))).visit(copy.deepcopy(f.body))
        return n


def _row_ok(e):
    if isinstance(e, (ast.Tuple, ast.List)): return all(_simple_elt(x) for x in e.elts)
    return _simple_elt(e)


def _simple_elt(e):
    if isinstance(e, (ast.Name, ast.Constant)): return True
    if isinstance(e, ast.Lambda):
        # a constant or projection function in a table row: `lambda t: 1.e8`
        a = e.args
        return not (a.vararg or a.kwarg or a.kwonlyargs or a.defaults) and _simple_elt(e.body)
    if isinstance(e, ast.Attribute): return _simple_elt(e.value)
    if isinstance(e, ast.UnaryOp) and isinstance(e.op, (ast.USub, ast.UAdd)): return _simple_elt(e.operand)
    return False


def _unroll_in(fn, class_tables=None, module_tables=None):
    class_tables = class_tables or {}
    module_tables = module_tables or {}
    binds = {}
    for n in ast.walk(fn):
        if isinstance(n, ast.Assign):
            for t in n.targets:
                for x in ast.walk(t):
                    if isinstance(x, ast.Name): binds.setdefault(x.id, []).append(n)
        elif isinstance(n, (ast.AugAssign, ast.For, ast.With, ast.comprehension)):
            t = n.target if not isinstance(n, ast.With) else None
            if t is not None:
                for x in ast.walk(t):
                    if isinstance(x, ast.Name): binds.setdefault(x.id, []).append(n)

    def table(it):
        if isinstance(it, ast.Attribute) and isinstance(it.value, ast.Name) and it.value.id == 'self' and it.attr in class_tables:
            it = class_tables[it.attr]
        if isinstance(it, ast.Name) and it.id in module_tables and it.id not in binds:
            it = module_tables[it.id]
        if isinstance(it, ast.Name):
            b = binds.get(it.id, [])
            if len(b) == 1 and isinstance(b[0], ast.Assign) and len(b[0].targets) == 1 and isinstance(b[0].targets[0], ast.Name):
                it = b[0].value
            else: return None
        if isinstance(it, (ast.Tuple, ast.List)) and 0 < len(it.elts) <= 8 and all(_row_ok(r) for r in it.elts): return it.elts
        return None

    class U(ast.NodeTransformer):
        def visit_FunctionDef(self, node):
            if node is not fn: return node
            self.generic_visit(node); return node
        def visit_For(self, node):
            self.generic_visit(node)
            rows = table(node.iter)
            if rows is None or node.orelse: return node
            tg = node.target
            names = [tg.id] if isinstance(tg, ast.Name) else ([e.id for e in tg.elts] if isinstance(tg, ast.Tuple) and all(isinstance(e, ast.Name) for e in tg.elts) else None)
            if names is None: return node
            # a `continue` in tail position of the body ends nothing but the iteration it is in: it is a `pass`
            def _tail(stmts):
                if not stmts: return
                last = stmts[-1]
                if isinstance(last, ast.Continue): stmts[-1] = ast.copy_location(ast.Pass(), last)
                elif isinstance(last, ast.If): _tail(last.body); _tail(last.orelse)
                elif isinstance(last, ast.Try) and not last.finalbody:
                    for h in last.handlers: _tail(h.body)
                    _tail(last.orelse if last.orelse else last.body)
            if rows is not None and not node.orelse:
                trial = copy.deepcopy(node.body)
                _tail(trial)
                if not any(isinstance(x, ast.Continue) for st in trial for x in ast.walk(st)): node.body = trial
            body_nodes = [x for st in node.body for x in ast.walk(st)]
            # "first row that matches": the body is one `if C: ...; break` -> an if / elif chain over the rows
            first_match = len(node.body) == 1 and isinstance(node.body[0], ast.If) and not node.body[0].orelse and \
                isinstance(node.body[0].body[-1], ast.Break) and len(node.body[0].body) > 1 and \
                sum(1 for x in body_nodes if isinstance(x, (ast.Break, ast.Continue))) == 1
            if first_match:
                if any(isinstance(x, (ast.FunctionDef, ast.Lambda)) for x in body_nodes): return node
                if any(isinstance(x, ast.Name) and isinstance(x.ctx, (ast.Store, ast.Del)) and x.id in names for x in body_nodes): return node
                chain = []
                for r in reversed(rows):
                    if isinstance(tg, ast.Name): m = {tg.id: r}
                    else:
                        if not isinstance(r, (ast.Tuple, ast.List)) or len(r.elts) != len(names): return node
                        m = dict(zip(names, r.elts))
                    one = copy.deepcopy(node.body[0])
                    one.body = one.body[:-1]
                    one = _SubstNames(m).visit(one)
                    one.orelse = chain
                    chain = [ast.fix_missing_locations(ast.copy_location(one, node))]
                return chain
            if any(isinstance(x, (ast.Break, ast.Continue, ast.FunctionDef, ast.Lambda)) for x in body_nodes): return node
            if any(isinstance(x, ast.Name) and isinstance(x.ctx, (ast.Store, ast.Del)) and x.id in names for x in body_nodes): return node
            # the targets must not be read after the loop
            after_use = False
            out = []
            for r in rows:
                if isinstance(tg, ast.Name): m = {tg.id: r}
                else:
                    if not isinstance(r, (ast.Tuple, ast.List)) or len(r.elts) != len(names): return node
                    m = dict(zip(names, r.elts))
                for st in node.body:
                    out.append(ast.fix_missing_locations(ast.copy_location(_SubstNames(m).visit(copy.deepcopy(st)), st)))
            return out
    # targets read after the loop keep their last value in the original: only unroll when no target is loaded outside the loop
    loops = [n for n in ast.walk(fn) if isinstance(n, ast.For)]
    for lp in loops:
        tnames = set(x.id for x in ast.walk(lp.target) if isinstance(x, ast.Name))
        # (a load inside another loop that binds the same name itself belongs to that loop)
        inside = dict((id(x), None) for x in ast.walk(lp))
        for other in loops:
            onames = set(x.id for x in ast.walk(other.target) if isinstance(x, ast.Name))
            for x in ast.walk(other):
                if isinstance(x, ast.Name) and x.id in onames: inside[id(x)] = None
        if any(isinstance(x, ast.Name) and x.id in tnames and isinstance(x.ctx, ast.Load) and id(x) not in inside for x in ast.walk(fn)):
            lp.orelse = lp.orelse or [ast.Pass()]       # marks it as not unrollable
            lp._keep = True
    U().visit(fn)
    for lp in ast.walk(fn):
        if isinstance(lp, ast.For) and getattr(lp, '_keep', False) and len(lp.orelse) == 1 and isinstance(lp.orelse[0], ast.Pass): lp.orelse = []
    return fn


def unroll_tables(tree):
    stored_attrs = set(x.attr for x in ast.walk(tree) if isinstance(x, ast.Attribute) and isinstance(x.ctx, (ast.Store, ast.Del)))
    in_class = {}
    for c in [n for n in ast.walk(tree) if isinstance(n, ast.ClassDef)]:
        # class-level literal tables: bound once in the class body and never stored through an attribute anywhere in the module
        cnt = {}
        for st in c.body:
            if isinstance(st, ast.Assign):
                for t in st.targets:
                    for x in ast.walk(t):
                        if isinstance(x, ast.Name): cnt.setdefault(x.id, []).append(st)
        tabs = dict((nm, sts[0].value) for nm, sts in cnt.items() if len(sts) == 1 and len(sts[0].targets) == 1 and isinstance(sts[0].targets[0], ast.Name)
                    and isinstance(sts[0].value, (ast.Tuple, ast.List)) and nm not in stored_attrs)
        for st in c.body:
            if isinstance(st, ast.FunctionDef): in_class[id(st)] = tabs
    # module-level literal tables: bound once at module level, never re-bound (global) in a function
    mcnt = {}
    if isinstance(tree, ast.Module):
        for st in tree.body:
            if isinstance(st, ast.Assign):
                for t in st.targets:
                    for x in ast.walk(t):
                        if isinstance(x, ast.Name): mcnt.setdefault(x.id, []).append(st)
    globs = set(nm for g in ast.walk(tree) if isinstance(g, ast.Global) for nm in g.names)
    mtabs = dict((nm, sts[0].value) for nm, sts in mcnt.items() if len(sts) == 1 and len(sts[0].targets) == 1 and isinstance(sts[0].targets[0], ast.Name)
                 and isinstance(sts[0].value, (ast.Tuple, ast.List)) and nm not in globs and 0 < len(sts[0].value.elts) <= 8
                 and all(isinstance(r, (ast.Tuple, ast.List)) for r in sts[0].value.elts))
    for fn in [n for n in ast.walk(tree) if isinstance(n, ast.FunctionDef)]:
        tabs = in_class.get(id(fn)) or {}
        # cheap pre-filter: a loop over a literal, a plain name, or a class-level table
        def maybe(it):
            if isinstance(it, (ast.Tuple, ast.List)): return True
            if isinstance(it, ast.Name): return True
            return isinstance(it, ast.Attribute) and isinstance(it.value, ast.Name) and it.value.id == 'self' and it.attr in tabs
        if any(isinstance(x, ast.For) and maybe(x.iter) for x in ast.walk(fn)): _unroll_in(fn, tabs, mtabs)
    return tree


# ---------------------------------------------------------------------------
# N13: a local that only caches an attribute chain is the chain
#
# `scale = self.unit_scale` / `grid = self.grid` / `block = grid.block` at the top of a function (or of a loop body), bound once
# and only read afterwards, is what "read it once into a local" produces.  Its reads are replaced by the chain when the chain
# is rooted at a name that is never re-bound in the function, every attribute in it is a plain data attribute (not a method,
# not a property with a computing getter) that the function never stores to, and the local is not captured by a closure.

def _chain(e):
    names = []
    while isinstance(e, ast.Attribute):
        names.append(e.attr); e = e.value
    if isinstance(e, ast.Name) and names: return e.id, names[::-1]
    return None, None


def _module_attr_kinds(tree):
    methods, computed = set(), set()
    for c in ast.walk(tree):
        if not isinstance(c, ast.ClassDef): continue
        fns = dict((f.name, f) for f in c.body if isinstance(f, ast.FunctionDef))
        methods |= set(fns)
        for st in c.body:
            if isinstance(st, ast.Assign) and isinstance(st.value, ast.Call) and isinstance(st.value.func, ast.Name) and st.value.func.id == 'property' \
               and len(st.targets) == 1 and isinstance(st.targets[0], ast.Name):
                g = fns.get(st.value.args[0].id) if st.value.args and isinstance(st.value.args[0], ast.Name) else None
                body = _body(g) if g is not None else None
                trivial = body is not None and len(body) == 1 and isinstance(body[0], ast.Return) and isinstance(body[0].value, ast.Attribute) and \
                    isinstance(body[0].value.value, ast.Name) and body[0].value.value.id == 'self'
                computed.add(st.targets[0].id)       # (a trivial getter still reads a backing field that the function may store to)
        for f in fns.values():
            for d in f.decorator_list:
                if isinstance(d, ast.Name) and d.id == 'property': computed.add(f.name)
    return methods, computed


def _alias_locals_in(fn, methods, computed):
    # cheap pre-filter: is there any `name = <attribute chain>` at all?
    if not any(isinstance(st, ast.Assign) and len(st.targets) == 1 and isinstance(st.targets[0], ast.Name) and isinstance(st.value, ast.Attribute)
               and _chain(st.value)[0] is not None for st in ast.walk(fn)):
        return False
    params = set(a.arg for a in fn.args.posonlyargs + fn.args.args + fn.args.kwonlyargs)
    if fn.args.vararg: params.add(fn.args.vararg.arg)
    if fn.args.kwarg: params.add(fn.args.kwarg.arg)
    stores, attr_stores, captured = {}, set(), set()
    order = {}
    for k, n in enumerate(_preorder(fn)):
        order[id(n)] = k
    for n in ast.walk(fn):
        if isinstance(n, ast.Name) and isinstance(n.ctx, (ast.Store, ast.Del)): stores[n.id] = stores.get(n.id, 0) + 1
        if isinstance(n, ast.Attribute) and isinstance(n.ctx, (ast.Store, ast.Del)):
            # stored through which object: `con.block = ...` does not touch `self.block` (different root objects)
            r_, _a = _chain(n)
            attr_stores.add((r_, n.attr))
        if isinstance(n, (ast.Global, ast.Nonlocal)):
            for nm in n.names: stores[nm] = stores.get(nm, 0) + 2
        if isinstance(n, (ast.FunctionDef, ast.Lambda)) and n is not fn:
            for x in ast.walk(n):
                if isinstance(x, ast.Name): captured.add(x.id)
        if isinstance(n, ast.ExceptHandler) and n.name: stores[n.name] = stores.get(n.name, 0) + 1
    cands = {}
    for st in ast.walk(fn):
        if isinstance(st, ast.Assign) and len(st.targets) == 1 and isinstance(st.targets[0], ast.Name):
            t = st.targets[0].id
            root, attrs = _chain(st.value)
            if root is None or t in params or stores.get(t, 0) != 1 or t in captured: continue
            if stores.get(root, 0) > 1: continue
            if stores.get(root, 0) == 1:
                # a root bound exactly once, before the alias is taken (a looked-up object, a loop variable)
                rs_ = [x for x in ast.walk(fn) if isinstance(x, ast.Name) and x.id == root and isinstance(x.ctx, (ast.Store, ast.Del))]
                if root in params or not rs_ or order[id(rs_[0])] > order[id(st)]: continue
            if any(a in computed or a.startswith('__') for a in attrs): continue
            if any(a in methods for a in attrs[:-1]): continue
            if attrs[-1] in methods:
                # a cached bound method (`write_values = outfile.write_values`): only when every use of the local is a call of it
                uses_ = [x for x in ast.walk(fn) if isinstance(x, ast.Name) and x.id == t and isinstance(x.ctx, ast.Load)]
                callees_ = set(id(c.func) for c in ast.walk(fn) if isinstance(c, ast.Call))
                if not uses_ or any(id(u) not in callees_ for u in uses_): continue
            if any((r2, a) in attr_stores for a in attrs for r2 in (root, None)): continue      # (None: stored through a non-chain expression)
            cands[t] = st
    if not cands: return False
    # every read comes after the binding
    for n in ast.walk(fn):
        if isinstance(n, ast.Name) and isinstance(n.ctx, ast.Load) and n.id in cands and order[id(n)] < order[id(cands[n.id])]:
            del cands[n.id]
    if not cands: return False
    class R(ast.NodeTransformer):
        def visit_FunctionDef(self, node):
            if node is not fn: return node
            self.generic_visit(node); return node
        def visit_Lambda(self, node): return node
        def visit_Name(self, n):
            if isinstance(n.ctx, ast.Load) and n.id in cands:
                return ast.copy_location(copy.deepcopy(cands[n.id].value), n)
            return n
        def visit_Assign(self, node):
            if any(node is st for st in cands.values()): return ast.copy_location(ast.Pass(), node)
            self.generic_visit(node); return node
    R().visit(fn)
    return True


def _preorder(n):
    yield n
    for c in ast.iter_child_nodes(n):
        for x in _preorder(c): yield x


class _SplitTuples(ast.NodeTransformer):
    """`a, b = X, Y` with X, Y attribute chains / names / constants that do not mention a or b is `a = X; b = Y`"""
    def _split(self, stmts):
        out = []
        for st in stmts:
            if isinstance(st, ast.Assign) and len(st.targets) == 1 and isinstance(st.targets[0], ast.Tuple) and isinstance(st.value, ast.Tuple) and \
               len(st.targets[0].elts) == len(st.value.elts) and all(isinstance(t, ast.Name) for t in st.targets[0].elts) and \
               all(_sel_simple(v) and not isinstance(v, ast.Constant) or isinstance(v, ast.Attribute) for v in st.value.elts) and \
               any(isinstance(v, ast.Attribute) for v in st.value.elts):
                tn = set(t.id for t in st.targets[0].elts)
                if not any(isinstance(x, ast.Name) and x.id in tn for v in st.value.elts for x in ast.walk(v)):
                    for t, v in zip(st.targets[0].elts, st.value.elts):
                        out.append(ast.copy_location(ast.Assign(targets=[t], value=v), st))
                    continue
            out.append(st)
        return out
    def generic_visit(self, node):
        super().generic_visit(node)
        for f in ('body', 'orelse', 'finalbody'):
            b = getattr(node, f, None)
            if isinstance(b, list) and b and isinstance(b[0], ast.stmt): setattr(node, f, self._split(b))
        return node


LIBRARY_METHODS, LIBRARY_PROPERTIES = set(), set()      # filled by core.Program for the whole library before any module is normalised
LIBRARY_SIGNATURES = {}                                  # callable name -> parameter names (without self), when all definitions agree


def library_signatures(trees):
    sigs, clash = {}, set()
    def add(name, params):
        if name in sigs and sigs[name] != params: clash.add(name)
        sigs.setdefault(name, params)
    for t in trees:
        for n in ast.walk(t):
            if isinstance(n, ast.ClassDef):
                for f in n.body:
                    if isinstance(f, ast.FunctionDef) and not (f.args.vararg or f.args.kwarg or f.args.kwonlyargs):
                        ps = [a.arg for a in f.args.args][1:]
                        add(n.name if f.name == '__init__' else f.name, ps)
                    elif isinstance(f, ast.FunctionDef): clash.add(n.name if f.name == '__init__' else f.name)
        for f in t.body if isinstance(t, ast.Module) else []:
            if isinstance(f, ast.FunctionDef):
                if f.args.vararg or f.args.kwarg or f.args.kwonlyargs: clash.add(f.name)
                else: add(f.name, [a.arg for a in f.args.args])
    return dict((k, v) for k, v in sigs.items() if k not in clash)


# N22: `n1, n2, ..., nk = X` with X a plain name the function never re-binds (a module-level coefficient table, a parameter)
# and every ni bound only there is "give the entries names": reads of ni are X[i-1].  Only at the top level of the function
# body or of an `if` body (the binding dominates every read that follows it textually in that block and there is no loop
# between); X must not be stored through (`X[i] = ...`, `X.append`) anywhere in the function.

def _unpack_names_in(fn):
    stores, captured = {}, set()
    for n in ast.walk(fn):
        if isinstance(n, ast.Name) and isinstance(n.ctx, (ast.Store, ast.Del)): stores[n.id] = stores.get(n.id, 0) + 1
        if isinstance(n, (ast.Global, ast.Nonlocal)):
            for nm in n.names: stores[nm] = stores.get(nm, 0) + 2
        if isinstance(n, (ast.FunctionDef, ast.Lambda)) and n is not fn:
            for x in ast.walk(n):
                if isinstance(x, ast.Name): captured.add(x.id)
        if isinstance(n, ast.ExceptHandler) and n.name: stores[n.name] = stores.get(n.name, 0) + 1
    params = set(a.arg for a in fn.args.posonlyargs + fn.args.args + fn.args.kwonlyargs)
    order = dict((id(n), k) for k, n in enumerate(_preorder(fn)))
    done = False
    def blocks(stmts, in_loop):
        yield stmts, in_loop
        for st in stmts:
            if isinstance(st, ast.If):
                for b in (st.body, st.orelse):
                    for x in blocks(b, in_loop): yield x
    for stmts, _l in list(blocks(fn.body, False)):
        for st in list(stmts):
            if not (isinstance(st, ast.Assign) and len(st.targets) == 1 and isinstance(st.targets[0], ast.Tuple) and isinstance(st.value, ast.Name)): continue
            X = st.value.id
            tg = st.targets[0].elts
            if not all(isinstance(t, ast.Name) for t in tg) or len(tg) < 2: continue
            names = [t.id for t in tg]
            if len(set(names)) != len(names) or X in names: continue
            if stores.get(X, 0) > 0 and not (X in params and stores.get(X, 0) == 0): continue
            if any(stores.get(t, 0) != 1 or t in captured or t in params for t in names): continue
            # X never mutated: no subscript / attribute store rooted at X, no method call on X
            bad = False
            for n in ast.walk(fn):
                if isinstance(n, (ast.Subscript, ast.Attribute)) and isinstance(n.ctx, (ast.Store, ast.Del)):
                    r = n
                    while isinstance(r, (ast.Subscript, ast.Attribute)): r = r.value
                    if isinstance(r, ast.Name) and r.id == X: bad = True
                if isinstance(n, ast.Call) and isinstance(n.func, ast.Attribute) and isinstance(n.func.value, ast.Name) and n.func.value.id == X: bad = True
                if isinstance(n, ast.AugAssign) and isinstance(n.target, ast.Name) and n.target.id == X: bad = True
                if isinstance(n, ast.Name) and isinstance(n.ctx, ast.Load) and n.id in names and order[id(n)] < order[id(st)]: bad = True
            if bad: continue
            idx = dict((t, k) for k, t in enumerate(names))
            class R(ast.NodeTransformer):
                def visit_Lambda(self, node): return node
                def visit_Name(self, n):
                    if isinstance(n.ctx, ast.Load) and n.id in idx:
                        return ast.copy_location(ast.Subscript(value=ast.Name(id=X, ctx=ast.Load()), slice=ast.Constant(value=idx[n.id]), ctx=ast.Load()), n)
                    return n
            k = stmts.index(st)
            stmts[k] = ast.copy_location(ast.Pass(), st)
            R().visit(fn)
            done = True
    if done: ast.fix_missing_locations(fn)
    return done


def alias_locals(tree):
    tree = _SplitTuples().visit(tree)
    for fn in [n for n in ast.walk(tree) if isinstance(n, ast.FunctionDef)]:
        if any(isinstance(x, ast.Assign) and isinstance(x.value, ast.Name) and x.targets and isinstance(x.targets[0], ast.Tuple) for x in ast.walk(fn)):
            _unpack_names_in(fn)
    methods, computed = _module_attr_kinds(tree)
    methods, computed = methods | LIBRARY_METHODS, computed | LIBRARY_PROPERTIES
    for fn in [n for n in ast.walk(tree) if isinstance(n, ast.FunctionDef)]:
        for _ in range(3):          # chains of aliases: grid = self.grid; block = grid.block
            if not _alias_locals_in(fn, methods, computed): break
    return tree


def normalise(tree, modname=None):
    tree = unroll_tables(tree)               # N10
    tree = alias_locals(tree)                # N13
    tree = _Norm().visit(tree)
    ast.fix_missing_locations(tree)
    closures = _new_closures(tree, modname) if isinstance(tree, ast.Module) else {}
    if isinstance(tree, ast.Module) and (closures or any(isinstance(x, ast.FunctionDef) and _is_private(x.name) for x in ast.walk(tree))):
        tree = inline_helpers(tree, closures)          # N8
        tree = _Norm().visit(tree)           # the spliced bodies go through N1-N7 with their new surroundings
        ast.fix_missing_locations(tree)
    return tree


# ---------------------------------------------------------------------------
# N8: private helpers are part of the function that calls them
#
# `_helper(...)` / `self._helper(...)` (a leading underscore, defined in the same module / class, no *args) is what
# "extract function" produces.  Its body is spliced into the caller: parameters are replaced by the (simple) argument
# expressions, its locals are prefixed, and - all its returns being in tail position after N7 - `return E` becomes an
# assignment to the call's target (or the caller's own return).  A helper whose body is a single `return E` is also
# substituted inside larger expressions.

def _is_private(name): return name.startswith('_') and not name.startswith('__')


def _simple(e):
    if isinstance(e, (ast.Name, ast.Constant)): return True
    if isinstance(e, ast.Attribute): return _simple(e.value)
    if isinstance(e, ast.Subscript): return _simple(e.value) and (isinstance(e.slice, ast.Slice) and all(x is None or _simple(x) for x in (e.slice.lower, e.slice.upper, e.slice.step)) or _simple(e.slice))
    if isinstance(e, ast.UnaryOp): return _simple(e.operand)
    return False


def _body(fn):
    b = fn.body
    if b and isinstance(b[0], ast.Expr) and isinstance(b[0].value, ast.Constant) and isinstance(b[0].value.value, str): b = b[1:]
    return b


def _tail_returns_only(stmts):
    """every Return of the block is in tail position, and every path through it ends in a Return"""
    if not stmts: return False
    for s in stmts[:-1]:
        if any(isinstance(x, ast.Return) for x in ast.walk(s)): return False
    last = stmts[-1]
    if isinstance(last, ast.Return): return True
    if isinstance(last, ast.If): return _tail_returns_only(last.body) and _tail_returns_only(last.orelse)
    if isinstance(last, ast.Raise): return True
    return False


def _no_returns(stmts):
    return not any(isinstance(x, ast.Return) and x.value is not None for s in stmts for x in ast.walk(s))


class _Bind(ast.NodeTransformer):
    def __init__(self, mapping, prefix, local_names):
        self.mapping, self.prefix, self.local_names = mapping, prefix, local_names
    def visit_Name(self, n):
        if n.id in self.mapping: return copy.deepcopy(self.mapping[n.id])
        if n.id in self.local_names: return ast.copy_location(ast.Name(id=self.prefix + n.id, ctx=n.ctx), n)
        return n
    def visit_FunctionDef(self, n): return n
    def visit_Lambda(self, n): return n


class _Inliner(object):
    def __init__(self, tree):
        self.count = 0
        self.skip = set()
        self.mod_helpers = dict((f.name, f) for f in tree.body if isinstance(f, ast.FunctionDef) and _is_private(f.name) and self._ok_sig(f))
        self.cls_helpers = {}
        for c in tree.body:
            if isinstance(c, ast.ClassDef):
                for f in c.body:
                    if isinstance(f, ast.FunctionDef) and _is_private(f.name) and self._ok_sig(f) and f.args.args and f.args.args[0].arg == 'self':
                        self.cls_helpers[(c.name, f.name)] = f

    @staticmethod
    def _ok_sig(f):
        a = f.args
        return not (a.vararg or a.kwarg or a.kwonlyargs or a.posonlyargs) and not f.decorator_list and \
            not any(isinstance(x, (ast.Yield, ast.YieldFrom, ast.Global, ast.Nonlocal)) for x in ast.walk(f)) and \
            not any(isinstance(x, ast.Call) and isinstance(x.func, ast.Name) and x.func.id == f.name for x in ast.walk(f))

    def resolve(self, call, clsname):
        """(helper FunctionDef, receiver expr or None)"""
        f = call.func
        if isinstance(f, ast.Name) and f.id in self.mod_helpers: return self.mod_helpers[f.id], None
        if isinstance(f, ast.Attribute) and isinstance(f.value, ast.Name) and f.value.id == 'self' and (clsname, f.attr) in self.cls_helpers:
            return self.cls_helpers[(clsname, f.attr)], f.value
        return None, None

    def bind(self, helper, call, recv):
        """{param: arg expr} or None"""
        params = [a.arg for a in helper.args.args]
        if recv is not None: params = params[1:]
        if any(isinstance(a, ast.Starred) for a in call.args) or any(k.arg is None for k in call.keywords): return None
        if len(call.args) > len(params): return None
        m = dict(zip(params, call.args))
        for k in call.keywords:
            if k.arg not in params or k.arg in m: return None
            m[k.arg] = k.value
        defaults = helper.args.defaults
        for i, p in enumerate(params):
            if p not in m:
                di = i - (len(params) - len(defaults))
                if di < 0: return None
                m[p] = defaults[di]
        if recv is not None: m['self'] = recv
        return m

    def locals_of(self, helper):
        """names bound by statements of the helper (comprehension variables have their own scope and keep their names)"""
        comp = set()
        for x in ast.walk(helper):
            if isinstance(x, (ast.ListComp, ast.SetComp, ast.DictComp, ast.GeneratorExp)):
                for g in x.generators:
                    for y in ast.walk(g.target):
                        if isinstance(y, ast.Name): comp.add(id(y))
        out = set()
        for x in ast.walk(helper):
            if isinstance(x, ast.Name) and isinstance(x.ctx, (ast.Store, ast.Del)) and id(x) not in comp: out.add(x.id)
        return out - set(a.arg for a in helper.args.args)

    def splice(self, helper, mapping, target_kind, target):
        """statements replacing `target = helper(...)` / `helper(...)` / `return helper(...)`, or None"""
        body = _body(helper)
        if not body: return None
        self.count += 1
        prefix = '_h%d_' % self.count
        pre = []
        m = {}
        params_assigned = set(x.id for x in ast.walk(helper) if isinstance(x, ast.Name) and isinstance(x.ctx, ast.Store))
        for p, a in mapping.items():
            if _simple(a) and p not in params_assigned: m[p] = a
            else:
                t = prefix + p
                pre.append(ast.Assign(targets=[ast.Name(id=t, ctx=ast.Store())], value=a))
                m[p] = ast.Name(id=t, ctx=ast.Load())
        b = _Bind(m, prefix, self.locals_of(helper))
        new = [b.visit(copy.deepcopy(s)) for s in body]
        if target_kind == 'expr':
            if not _no_returns(new):
                if not _tail_returns_only(new): return None
                new = self._returns_to(new, None)
            else:
                new = self._returns_to(new, None) if any(isinstance(x, ast.Return) for s in new for x in ast.walk(s)) and _tail_returns_only(new) else new
                if any(isinstance(x, ast.Return) for s in new for x in ast.walk(s)): return None
        elif target_kind == 'assign':
            if not _tail_returns_only(new): return None
            new = self._returns_to(new, target)
        elif target_kind == 'return':
            if not _tail_returns_only(new): return None
        return pre + new

    def _returns_to(self, stmts, target):
        out = list(stmts)
        last = out[-1]
        if isinstance(last, ast.Return):
            if target is None: out[-1:] = [] if last.value is None or _simple(last.value) else [ast.Expr(value=last.value)]
            else: out[-1] = ast.Assign(targets=[copy.deepcopy(t) for t in target], value=last.value if last.value is not None else ast.Constant(value=None))
        elif isinstance(last, ast.If):
            last.body = self._returns_to(last.body, target) or [ast.Pass()]
            last.orelse = self._returns_to(last.orelse, target)
        return out

    # -- drive ------------------------------------------------------------------
    def run_function(self, fn, clsname, depth=0):
        changed = False
        for node in ast.walk(fn):
            for field in ('body', 'orelse', 'finalbody'):
                blk = getattr(node, field, None)
                if not (isinstance(blk, list) and blk and isinstance(blk[0], ast.stmt)): continue
                out = []
                for st in blk:
                    rep = self.statement(st, clsname)
                    if rep is None: out.append(st)
                    else: out.extend(rep); changed = True
                setattr(node, field, out)
            for h in getattr(node, 'handlers', []):
                out = []
                for st in h.body:
                    rep = self.statement(st, clsname)
                    if rep is None: out.append(st)
                    else: out.extend(rep); changed = True
                h.body = out
        # single-expression helpers inside larger expressions
        sub = _ExprInline(self, clsname)
        sub.visit(fn)
        changed = changed or sub.changed
        if changed and depth < 3: self.run_function(fn, clsname, depth + 1)
        return changed

    def statement(self, st, clsname):
        call, kind, target = None, None, None
        if isinstance(st, ast.Expr) and isinstance(st.value, ast.Call): call, kind = st.value, 'expr'
        elif isinstance(st, ast.Assign) and isinstance(st.value, ast.Call): call, kind, target = st.value, 'assign', st.targets
        elif isinstance(st, ast.Return) and isinstance(st.value, ast.Call): call, kind = st.value, 'return'
        if call is None or self.resolve(call, clsname)[0] is None:
            # a statement helper whose call is the first thing the statement evaluates, inside a larger expression
            # (`return self._checked(name, n), i`): hoist it into a temporary, then splice as an assignment
            val = getattr(st, 'value', None)
            if isinstance(st, (ast.Return, ast.Assign, ast.Expr)) and val is not None:
                fc = _first_call(val)
                if fc is not None and fc is not val:
                    helper, recv = self.resolve(fc, clsname)
                    body = _body(helper) if helper is not None else None
                    if helper is not None and not (len(body) == 1 and isinstance(body[0], ast.Return)):
                        m = self.bind(helper, fc, recv)
                        if m is not None:
                            tmp = '_h%d_ret' % (self.count + 1)
                            rep = self.splice(helper, m, 'assign', [ast.Name(id=tmp, ctx=ast.Store())])
                            if rep is not None:
                                st2 = _Replace(fc, ast.Name(id=tmp, ctx=ast.Load()), by_identity=True).visit(st)
                                out = rep + [st2]
                                for r in out:
                                    for x in ast.walk(r):
                                        if isinstance(x, (ast.stmt, ast.expr)) and not hasattr(x, 'lineno'): ast.copy_location(x, st)
                                return out
            return None
        helper, recv = self.resolve(call, clsname)
        if helper is None: return None
        m = self.bind(helper, call, recv)
        if m is None: return None
        rep = self.splice(helper, m, kind, target)
        if rep is None: return None
        for r in rep:
            ast.copy_location(r, st)
            for x in ast.walk(r):
                if not hasattr(x, 'lineno') and isinstance(x, (ast.stmt, ast.expr)): ast.copy_location(x, st)
        return rep or [ast.copy_location(ast.Pass(), st)]


class _ExprInline(ast.NodeTransformer):
    def __init__(self, inl, clsname): self.inl, self.clsname, self.changed = inl, clsname, False
    def visit_Call(self, node):
        self.generic_visit(node)
        helper, recv = self.inl.resolve(node, self.clsname)
        if helper is None: return node
        body = _body(helper)
        if len(body) != 1 or not isinstance(body[0], ast.Return) or body[0].value is None: return node
        m = self.inl.bind(helper, node, recv)
        if m is None: return node
        uses = {}
        for x in ast.walk(body[0].value):
            if isinstance(x, ast.Name): uses[x.id] = uses.get(x.id, 0) + 1
        if not all(_simple(a) or uses.get(p, 0) <= 1 for p, a in m.items()): return node
        if self.inl.locals_of(helper): return node          # comprehension variables etc. are fine; assigned locals are not
        self.changed = True
        new = _Bind(m, '', set()).visit(copy.deepcopy(body[0].value))
        return ast.copy_location(new, node)


def inline_helpers(tree, closures=None):
    inl = _Inliner(tree)
    closures = closures or {}
    if not inl.mod_helpers and not inl.cls_helpers and not closures: return tree

    def do(f, clsname):
        mine = [g for g in closures.get(id(f), []) if inl._ok_sig(g) and not (g.args.args and g.args.args[0].arg == 'self')]
        saved = dict(inl.mod_helpers)
        for g in mine: inl.mod_helpers[g.name] = g          # visible as helpers while this function is processed
        try:
            inl.skip = set(id(g) for g in mine)
            inl.run_function(f, clsname)
        finally:
            inl.mod_helpers = saved
            inl.skip = set()
        # a closure that is no longer referenced is dropped
        for g in mine:
            refs = [x for x in ast.walk(f) if isinstance(x, ast.Name) and x.id == g.name]
            if not refs:
                for node in ast.walk(f):
                    for field in ('body', 'orelse', 'finalbody'):
                        blk = getattr(node, field, None)
                        if isinstance(blk, list) and g in blk:
                            blk.remove(g)
                            if not blk: blk.append(ast.copy_location(ast.Pass(), g))
    for top in tree.body:
        if isinstance(top, ast.FunctionDef): do(top, None)
        elif isinstance(top, ast.ClassDef):
            for f in top.body:
                if isinstance(f, ast.FunctionDef): do(f, top.name)
    return tree
