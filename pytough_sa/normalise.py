"""Canonical form of the analysed program.

Every module is rewritten, after parsing and before any rule looks at it, into a form in which a handful of
behaviour-preserving spellings coincide, so that no rule can tell them apart (and none can raise an alarm over
the difference):

  N1  `if not c: B else: A`             ->  `if c: A else: B`            (any if with an else / elif part)
  N2  `a > b`, `a >= b` (one operator)   ->  `b < a`, `b <= a`             (operands free of calls: evaluation order is kept
                                                                           observable only through calls)
  N3  `t = E` immediately followed by `return t` (t a local of the function) ->  `return E`
  N4  `n = n + k` / `n = n - k` (k a numeric literal)                      ->  `n += k` / `n -= k`
  N5  `pass`, bare constants inside a block                                ->  removed
  N6  `t = E` followed by a statement whose first-evaluated operand is the only use of t  ->  E substituted for t

Line numbers of the original statements are kept for reports."""
import ast

FLIP = {ast.Gt: ast.Lt, ast.GtE: ast.LtE}


def _pure(e):
    return not any(isinstance(x, (ast.Call, ast.Await, ast.Yield, ast.YieldFrom, ast.NamedExpr)) for x in ast.walk(e))


class _Norm(ast.NodeTransformer):
    def visit_If(self, node):
        self.generic_visit(node)
        t = node.test
        if isinstance(t, ast.UnaryOp) and isinstance(t.op, ast.Not) and node.orelse:
            new = ast.If(test=t.operand, body=node.orelse, orelse=node.body)
            return ast.copy_location(new, node)
        return node

    def visit_IfExp(self, node):
        self.generic_visit(node)
        t = node.test
        if isinstance(t, ast.UnaryOp) and isinstance(t.op, ast.Not):
            return ast.copy_location(ast.IfExp(test=t.operand, body=node.orelse, orelse=node.body), node)
        return node

    def visit_Compare(self, node):
        self.generic_visit(node)
        if len(node.ops) == 1 and type(node.ops[0]) in FLIP and _pure(node.left) and _pure(node.comparators[0]):
            new = ast.Compare(left=node.comparators[0], ops=[FLIP[type(node.ops[0])]()], comparators=[node.left])
            return ast.copy_location(new, node)
        return node

    def visit_Assign(self, node):
        self.generic_visit(node)
        if len(node.targets) == 1 and isinstance(node.targets[0], ast.Name) and isinstance(node.value, ast.BinOp) and \
           isinstance(node.value.op, (ast.Add, ast.Sub)) and isinstance(node.value.left, ast.Name) and \
           node.value.left.id == node.targets[0].id and isinstance(node.value.right, ast.Constant) and \
           isinstance(node.value.right.value, (int, float)) and not isinstance(node.value.right.value, bool):
            new = ast.AugAssign(target=ast.Name(id=node.targets[0].id, ctx=ast.Store()), op=node.value.op, value=node.value.right)
            return ast.copy_location(new, node)
        return node

    def _block(self, stmts):
        # N5: `pass` and bare constant expressions (other than a leading docstring) carry no behaviour
        keep = [s for k, s in enumerate(stmts) if not (isinstance(s, ast.Pass) or
                (k > 0 and isinstance(s, ast.Expr) and isinstance(s.value, ast.Constant)))]
        stmts = keep if keep else stmts[:1]
        # N6: a temporary bound once to an expression and used once, as the first thing the next statement evaluates
        stmts = self._inline_temps(stmts)
        out = []
        i = 0
        while i < len(stmts):
            s = stmts[i]
            nxt = stmts[i + 1] if i + 1 < len(stmts) else None
            if isinstance(s, ast.Assign) and len(s.targets) == 1 and isinstance(s.targets[0], ast.Name) and \
               isinstance(nxt, ast.Return) and isinstance(nxt.value, ast.Name) and nxt.value.id == s.targets[0].id and \
               s.targets[0].id not in self._outer:
                out.append(ast.copy_location(ast.Return(value=s.value), s))
                i += 2; continue
            out.append(s); i += 1
        return out

    def _inline_temps(self, stmts):
        out = list(stmts)
        changed = True
        while changed:
            changed = False
            for i in range(len(out) - 1):
                s, nxt = out[i], out[i + 1]
                if not (isinstance(s, ast.Assign) and len(s.targets) == 1 and isinstance(s.targets[0], ast.Name)): continue
                t = s.targets[0].id
                if t in self._outer or self._count.get(t, 0) != 2 or not isinstance(nxt, (ast.Assign, ast.AugAssign, ast.Expr, ast.Return)): continue
                if isinstance(nxt, ast.AugAssign): continue
                val = nxt.value
                if val is None: continue
                first = _first_leaf(val)
                if isinstance(first, ast.Name) and first.id == t and isinstance(first.ctx, ast.Load):
                    new = _Replace(first, s.value).visit(nxt)
                    out[i:i + 2] = [new]
                    changed = True
                    break
        return out

    def visit_FunctionDef(self, node):
        # count name occurrences per function for N3 (store + one load)
        # N3 is safe for any purely local name: the function returns right after the assignment
        saved = getattr(self, '_outer', set())
        outer = set()
        for x in ast.walk(node):
            if isinstance(x, (ast.Global, ast.Nonlocal)): outer.update(x.names)
        self._outer = outer
        saved_c = getattr(self, '_count', {})
        cnt = {}
        for x in ast.walk(node):
            if isinstance(x, ast.Name): cnt[x.id] = cnt.get(x.id, 0) + 1
        self._count = cnt
        self.generic_visit(node)
        for n in ast.walk(node):
            for f in ('body', 'orelse', 'finalbody'):
                b = getattr(n, f, None)
                if isinstance(b, list) and b and isinstance(b[0], ast.stmt): setattr(n, f, self._block(b))
            for h in getattr(n, 'handlers', []): h.body = self._block(h.body)
        self._outer = saved
        self._count = saved_c
        return node


def _first_leaf(e):
    """the sub-expression Python evaluates first"""
    while True:
        if isinstance(e, ast.BinOp): e = e.left
        elif isinstance(e, ast.Compare): e = e.left
        elif isinstance(e, ast.BoolOp): e = e.values[0]
        elif isinstance(e, ast.UnaryOp): e = e.operand
        elif isinstance(e, ast.Subscript): e = e.value
        elif isinstance(e, ast.Attribute): e = e.value
        elif isinstance(e, ast.Call):
            if isinstance(e.func, ast.Name):
                if not e.args: return e
                e = e.args[0]
            else: e = e.func
        elif isinstance(e, (ast.Tuple, ast.List)) and e.elts: e = e.elts[0]
        else: return e


class _Replace(ast.NodeTransformer):
    def __init__(self, target, repl): self.target, self.repl = target, repl
    def visit_Name(self, n): return self.repl if n is self.target else n


def normalise(tree):
    tree = _Norm().visit(tree)
    ast.fix_missing_locations(tree)
    return tree
