"""Canonical form of the analysed program.

Every module is rewritten, after parsing and before any rule looks at it, into a form in which a handful of
behaviour-preserving spellings coincide, so that no rule can tell them apart (and none can raise an alarm over
the difference):

  N1  `if not c: B else: A`             ->  `if c: A else: B`            (any if with an else / elif part)
  N2  `a > b`, `a >= b` (one operator)   ->  `b < a`, `b <= a`             (operands free of calls: evaluation order is kept
                                                                           observable only through calls)
  N3  `t = E` immediately followed by `return t` (t a local of the function) ->  `return E`
  N4  `n = n + k` / `n = n - k` (k a numeric literal)                      ->  `n += k` / `n -= k`
  N5  `pass`, bare constants inside a block                                ->  removed
  N6  `t = E` followed by a statement whose first-evaluated operand is the only use of t  ->  E substituted for t
  N7  guard clause `if c: ...; return X` followed by the rest of the block   ->  `if c: ...; return X  else: <rest>`
      (so early returns and the nested if/else they abbreviate, and flattened elif chains, coincide; N1 then applies)

  N8  calls of private helpers (`_name(...)`, `self._name(...)`) are replaced by the helper's body (see below)

Line numbers of the original statements are kept for reports."""
import ast
import copy

FLIP = {ast.Gt: ast.Lt, ast.GtE: ast.LtE}


def _pure(e):
    return not any(isinstance(x, (ast.Call, ast.Await, ast.Yield, ast.YieldFrom, ast.NamedExpr)) for x in ast.walk(e))


class _Norm(ast.NodeTransformer):
    def visit_If(self, node):
        self.generic_visit(node)
        t = node.test
        if isinstance(t, ast.UnaryOp) and isinstance(t.op, ast.Not) and node.orelse:
            new = ast.If(test=t.operand, body=node.orelse, orelse=node.body)
            return ast.copy_location(new, node)
        return node

    def visit_If_only(self, node):
        """N1 on an already-normalised node (no recursion)"""
        t = node.test
        if isinstance(t, ast.UnaryOp) and isinstance(t.op, ast.Not) and node.orelse:
            return ast.copy_location(ast.If(test=t.operand, body=node.orelse, orelse=node.body), node)
        return node

    def visit_IfExp(self, node):
        self.generic_visit(node)
        t = node.test
        if isinstance(t, ast.UnaryOp) and isinstance(t.op, ast.Not):
            return ast.copy_location(ast.IfExp(test=t.operand, body=node.orelse, orelse=node.body), node)
        return node

    def visit_Compare(self, node):
        self.generic_visit(node)
        if len(node.ops) == 1 and type(node.ops[0]) in FLIP and _pure(node.left) and _pure(node.comparators[0]):
            new = ast.Compare(left=node.comparators[0], ops=[FLIP[type(node.ops[0])]()], comparators=[node.left])
            return ast.copy_location(new, node)
        return node

    def visit_Assign(self, node):
        self.generic_visit(node)
        if len(node.targets) == 1 and isinstance(node.targets[0], ast.Name) and isinstance(node.value, ast.BinOp) and \
           isinstance(node.value.op, (ast.Add, ast.Sub)) and isinstance(node.value.left, ast.Name) and \
           node.value.left.id == node.targets[0].id and isinstance(node.value.right, ast.Constant) and \
           isinstance(node.value.right.value, (int, float)) and not isinstance(node.value.right.value, bool):
            new = ast.AugAssign(target=ast.Name(id=node.targets[0].id, ctx=ast.Store()), op=node.value.op, value=node.value.right)
            return ast.copy_location(new, node)
        return node

    def _block(self, stmts):
        # N5: `pass` and bare constant expressions (other than a leading docstring) carry no behaviour
        keep = [s for k, s in enumerate(stmts) if not (isinstance(s, ast.Pass) or
                (k > 0 and isinstance(s, ast.Expr) and isinstance(s.value, ast.Constant)))]
        stmts = keep if keep else stmts[:1]
        # N7: a guard clause `if c: <...; return/raise/continue/break>` followed by more statements is the if/else it abbreviates
        EXIT = (ast.Return, ast.Raise, ast.Continue, ast.Break)
        for k, st in enumerate(stmts[:-1]):
            if not (isinstance(st, ast.If) and st.body): continue
            b_exits = isinstance(st.body[-1], EXIT)
            e_exits = bool(st.orelse) and isinstance(st.orelse[-1], EXIT)
            if b_exits and not e_exits:
                # what follows only runs when the test is false: it belongs to the else branch
                rest = self._block(list(st.orelse) + stmts[k + 1:])
                new = ast.copy_location(ast.If(test=st.test, body=st.body, orelse=rest), st)
                stmts = stmts[:k] + [self.visit_If_only(new)]
                break
            if e_exits and not b_exits:
                rest = self._block(list(st.body) + stmts[k + 1:])
                new = ast.copy_location(ast.If(test=st.test, body=rest, orelse=st.orelse), st)
                stmts = stmts[:k] + [self.visit_If_only(new)]
                break
        # N6: a temporary bound once to an expression and used once, as the first thing the next statement evaluates
        stmts = self._inline_temps(stmts)
        out = []
        i = 0
        while i < len(stmts):
            s = stmts[i]
            nxt = stmts[i + 1] if i + 1 < len(stmts) else None
            if isinstance(s, ast.Assign) and len(s.targets) == 1 and isinstance(s.targets[0], ast.Name) and \
               isinstance(nxt, ast.Return) and isinstance(nxt.value, ast.Name) and nxt.value.id == s.targets[0].id and \
               s.targets[0].id not in self._outer:
                out.append(ast.copy_location(ast.Return(value=s.value), s))
                i += 2; continue
            out.append(s); i += 1
        return out

    def _inline_temps(self, stmts):
        out = list(stmts)
        changed = True
        while changed:
            changed = False
            for i in range(len(out) - 1):
                s, nxt = out[i], out[i + 1]
                if not (isinstance(s, ast.Assign) and len(s.targets) == 1 and isinstance(s.targets[0], ast.Name)): continue
                t = s.targets[0].id
                if t in self._outer or self._count.get(t, 0) != 2 or not isinstance(nxt, (ast.Assign, ast.AugAssign, ast.Expr, ast.Return)): continue
                if isinstance(nxt, ast.AugAssign): continue
                val = nxt.value
                if val is None: continue
                first = _first_leaf(val)
                if isinstance(first, ast.Name) and first.id == t and isinstance(first.ctx, ast.Load):
                    new = _Replace(first, s.value).visit(nxt)
                    out[i:i + 2] = [new]
                    changed = True
                    break
                # a plain copy of another local / a constant can be substituted wherever the next statement uses it
                if isinstance(s.value, (ast.Name, ast.Constant)):
                    uses = [x for x in ast.walk(val) if isinstance(x, ast.Name) and x.id == t and isinstance(x.ctx, ast.Load)]
                    inner_scopes = any(isinstance(x, (ast.Lambda, ast.GeneratorExp, ast.ListComp, ast.SetComp, ast.DictComp)) for x in ast.walk(val))
                    if len(uses) == 1 and not inner_scopes:
                        new = _Replace(uses[0], s.value).visit(nxt)
                        out[i:i + 2] = [new]
                        changed = True
                        break
        return out

    def visit_FunctionDef(self, node):
        # count name occurrences per function for N3 (store + one load)
        # N3 is safe for any purely local name: the function returns right after the assignment
        saved = getattr(self, '_outer', set())
        outer = set()
        for x in ast.walk(node):
            if isinstance(x, (ast.Global, ast.Nonlocal)): outer.update(x.names)
        self._outer = outer
        saved_c = getattr(self, '_count', {})
        cnt = {}
        for x in ast.walk(node):
            if isinstance(x, ast.Name): cnt[x.id] = cnt.get(x.id, 0) + 1
        self._count = cnt
        self.generic_visit(node)
        for n in ast.walk(node):
            for f in ('body', 'orelse', 'finalbody'):
                b = getattr(n, f, None)
                if isinstance(b, list) and b and isinstance(b[0], ast.stmt): setattr(n, f, self._block(b))
            for h in getattr(n, 'handlers', []): h.body = self._block(h.body)
        self._outer = saved
        self._count = saved_c
        return node


def _first_leaf(e):
    """the sub-expression Python evaluates first"""
    while True:
        if isinstance(e, ast.BinOp): e = e.left
        elif isinstance(e, ast.Compare): e = e.left
        elif isinstance(e, ast.BoolOp): e = e.values[0]
        elif isinstance(e, ast.UnaryOp): e = e.operand
        elif isinstance(e, ast.Subscript): e = e.value
        elif isinstance(e, ast.Attribute): e = e.value
        elif isinstance(e, ast.Call):
            if isinstance(e.func, ast.Name):
                if not e.args: return e
                e = e.args[0]
            else: e = e.func
        elif isinstance(e, (ast.Tuple, ast.List)) and e.elts: e = e.elts[0]
        else: return e


class _Replace(ast.NodeTransformer):
    def __init__(self, target, repl, by_identity=False): self.target, self.repl, self.by_identity = target, repl, by_identity
    def visit_Name(self, n): return self.repl if n is self.target else n
    def visit_Call(self, n):
        if self.by_identity and n is self.target: return self.repl
        self.generic_visit(n); return n


def _first_call(e):
    """the first Call the expression evaluates, provided nothing with a possible effect is evaluated before it"""
    if isinstance(e, ast.Call):
        inner = None
        for part in ([e.func.value] if isinstance(e.func, ast.Attribute) else []) + list(e.args):
            inner = _first_call(part)
            if inner is not None: return inner
            if not _simple(part): return None
        return e
    if isinstance(e, (ast.Tuple, ast.List)):
        for x in e.elts:
            c = _first_call(x)
            if c is not None: return c
            if not _simple(x): return None
        return None
    if isinstance(e, ast.BinOp):
        c = _first_call(e.left)
        if c is not None: return c
        return _first_call(e.right) if _simple(e.left) else None
    if isinstance(e, ast.Compare):
        c = _first_call(e.left)
        if c is not None: return c
        return _first_call(e.comparators[0]) if _simple(e.left) and len(e.comparators) == 1 else None
    if isinstance(e, ast.UnaryOp): return _first_call(e.operand)
    if isinstance(e, ast.Subscript): return _first_call(e.value)
    if isinstance(e, ast.Attribute): return _first_call(e.value)
    return None


def _new_closures(tree, modname):
    """{id(outer FunctionDef): [nested FunctionDef, ...]} for nested functions that are not in the baseline list of the
    module (vocab.json, written by tools/gen_vocab.py): local helpers introduced by a later edit"""
    if modname is None: return {}
    try:
        from . import vocab
        base = vocab.nested_baseline().get(modname)
    except Exception:
        base = None
    if base is None: return {}
    base = set(base)
    out = {}
    for f in ast.walk(tree):
        if isinstance(f, ast.FunctionDef):
            for g in ast.walk(f):
                if isinstance(g, ast.FunctionDef) and g is not f and ('%s.%s' % (f.name, g.name)) not in base:
                    # only closures defined directly in f (not inside another nested def)
                    out.setdefault(id(f), []).append(g)
    return out


def normalise(tree, modname=None):
    tree = _Norm().visit(tree)
    ast.fix_missing_locations(tree)
    closures = _new_closures(tree, modname) if isinstance(tree, ast.Module) else {}
    if isinstance(tree, ast.Module) and (closures or any(isinstance(x, ast.FunctionDef) and _is_private(x.name) for x in ast.walk(tree))):
        tree = inline_helpers(tree, closures)          # N8
        tree = _Norm().visit(tree)           # the spliced bodies go through N1-N7 with their new surroundings
        ast.fix_missing_locations(tree)
    return tree


# ---------------------------------------------------------------------------
# N8: private helpers are part of the function that calls them
#
# `_helper(...)` / `self._helper(...)` (a leading underscore, defined in the same module / class, no *args) is what
# "extract function" produces.  Its body is spliced into the caller: parameters are replaced by the (simple) argument
# expressions, its locals are prefixed, and - all its returns being in tail position after N7 - `return E` becomes an
# assignment to the call's target (or the caller's own return).  A helper whose body is a single `return E` is also
# substituted inside larger expressions.

def _is_private(name): return name.startswith('_') and not name.startswith('__')


def _simple(e):
    if isinstance(e, (ast.Name, ast.Constant)): return True
    if isinstance(e, ast.Attribute): return _simple(e.value)
    if isinstance(e, ast.Subscript): return _simple(e.value) and (isinstance(e.slice, ast.Slice) and all(x is None or _simple(x) for x in (e.slice.lower, e.slice.upper, e.slice.step)) or _simple(e.slice))
    if isinstance(e, ast.UnaryOp): return _simple(e.operand)
    return False


def _body(fn):
    b = fn.body
    if b and isinstance(b[0], ast.Expr) and isinstance(b[0].value, ast.Constant) and isinstance(b[0].value.value, str): b = b[1:]
    return b


def _tail_returns_only(stmts):
    """every Return of the block is in tail position, and every path through it ends in a Return"""
    if not stmts: return False
    for s in stmts[:-1]:
        if any(isinstance(x, ast.Return) for x in ast.walk(s)): return False
    last = stmts[-1]
    if isinstance(last, ast.Return): return True
    if isinstance(last, ast.If): return _tail_returns_only(last.body) and _tail_returns_only(last.orelse)
    if isinstance(last, ast.Raise): return True
    return False


def _no_returns(stmts):
    return not any(isinstance(x, ast.Return) and x.value is not None for s in stmts for x in ast.walk(s))


class _Bind(ast.NodeTransformer):
    def __init__(self, mapping, prefix, local_names):
        self.mapping, self.prefix, self.local_names = mapping, prefix, local_names
    def visit_Name(self, n):
        if n.id in self.mapping: return copy.deepcopy(self.mapping[n.id])
        if n.id in self.local_names: return ast.copy_location(ast.Name(id=self.prefix + n.id, ctx=n.ctx), n)
        return n
    def visit_FunctionDef(self, n): return n
    def visit_Lambda(self, n): return n


class _Inliner(object):
    def __init__(self, tree):
        self.count = 0
        self.skip = set()
        self.mod_helpers = dict((f.name, f) for f in tree.body if isinstance(f, ast.FunctionDef) and _is_private(f.name) and self._ok_sig(f))
        self.cls_helpers = {}
        for c in tree.body:
            if isinstance(c, ast.ClassDef):
                for f in c.body:
                    if isinstance(f, ast.FunctionDef) and _is_private(f.name) and self._ok_sig(f) and f.args.args and f.args.args[0].arg == 'self':
                        self.cls_helpers[(c.name, f.name)] = f

    @staticmethod
    def _ok_sig(f):
        a = f.args
        return not (a.vararg or a.kwarg or a.kwonlyargs or a.posonlyargs) and not f.decorator_list and \
            not any(isinstance(x, (ast.Yield, ast.YieldFrom, ast.Global, ast.Nonlocal)) for x in ast.walk(f)) and \
            not any(isinstance(x, ast.Call) and isinstance(x.func, ast.Name) and x.func.id == f.name for x in ast.walk(f))

    def resolve(self, call, clsname):
        """(helper FunctionDef, receiver expr or None)"""
        f = call.func
        if isinstance(f, ast.Name) and f.id in self.mod_helpers: return self.mod_helpers[f.id], None
        if isinstance(f, ast.Attribute) and isinstance(f.value, ast.Name) and f.value.id == 'self' and (clsname, f.attr) in self.cls_helpers:
            return self.cls_helpers[(clsname, f.attr)], f.value
        return None, None

    def bind(self, helper, call, recv):
        """{param: arg expr} or None"""
        params = [a.arg for a in helper.args.args]
        if recv is not None: params = params[1:]
        if any(isinstance(a, ast.Starred) for a in call.args) or any(k.arg is None for k in call.keywords): return None
        if len(call.args) > len(params): return None
        m = dict(zip(params, call.args))
        for k in call.keywords:
            if k.arg not in params or k.arg in m: return None
            m[k.arg] = k.value
        defaults = helper.args.defaults
        for i, p in enumerate(params):
            if p not in m:
                di = i - (len(params) - len(defaults))
                if di < 0: return None
                m[p] = defaults[di]
        if recv is not None: m['self'] = recv
        return m

    def locals_of(self, helper):
        """names bound by statements of the helper (comprehension variables have their own scope and keep their names)"""
        comp = set()
        for x in ast.walk(helper):
            if isinstance(x, (ast.ListComp, ast.SetComp, ast.DictComp, ast.GeneratorExp)):
                for g in x.generators:
                    for y in ast.walk(g.target):
                        if isinstance(y, ast.Name): comp.add(id(y))
        out = set()
        for x in ast.walk(helper):
            if isinstance(x, ast.Name) and isinstance(x.ctx, (ast.Store, ast.Del)) and id(x) not in comp: out.add(x.id)
        return out - set(a.arg for a in helper.args.args)

    def splice(self, helper, mapping, target_kind, target):
        """statements replacing `target = helper(...)` / `helper(...)` / `return helper(...)`, or None"""
        body = _body(helper)
        if not body: return None
        self.count += 1
        prefix = '_h%d_' % self.count
        pre = []
        m = {}
        params_assigned = set(x.id for x in ast.walk(helper) if isinstance(x, ast.Name) and isinstance(x.ctx, ast.Store))
        for p, a in mapping.items():
            if _simple(a) and p not in params_assigned: m[p] = a
            else:
                t = prefix + p
                pre.append(ast.Assign(targets=[ast.Name(id=t, ctx=ast.Store())], value=a))
                m[p] = ast.Name(id=t, ctx=ast.Load())
        b = _Bind(m, prefix, self.locals_of(helper))
        new = [b.visit(copy.deepcopy(s)) for s in body]
        if target_kind == 'expr':
            if not _no_returns(new):
                if not _tail_returns_only(new): return None
                new = self._returns_to(new, None)
            else:
                new = self._returns_to(new, None) if any(isinstance(x, ast.Return) for s in new for x in ast.walk(s)) and _tail_returns_only(new) else new
                if any(isinstance(x, ast.Return) for s in new for x in ast.walk(s)): return None
        elif target_kind == 'assign':
            if not _tail_returns_only(new): return None
            new = self._returns_to(new, target)
        elif target_kind == 'return':
            if not _tail_returns_only(new): return None
        return pre + new

    def _returns_to(self, stmts, target):
        out = list(stmts)
        last = out[-1]
        if isinstance(last, ast.Return):
            if target is None: out[-1:] = [] if last.value is None or _simple(last.value) else [ast.Expr(value=last.value)]
            else: out[-1] = ast.Assign(targets=[copy.deepcopy(t) for t in target], value=last.value if last.value is not None else ast.Constant(value=None))
        elif isinstance(last, ast.If):
            last.body = self._returns_to(last.body, target) or [ast.Pass()]
            last.orelse = self._returns_to(last.orelse, target)
        return out

    # -- drive ------------------------------------------------------------------
    def run_function(self, fn, clsname, depth=0):
        changed = False
        for node in ast.walk(fn):
            for field in ('body', 'orelse', 'finalbody'):
                blk = getattr(node, field, None)
                if not (isinstance(blk, list) and blk and isinstance(blk[0], ast.stmt)): continue
                out = []
                for st in blk:
                    rep = self.statement(st, clsname)
                    if rep is None: out.append(st)
                    else: out.extend(rep); changed = True
                setattr(node, field, out)
            for h in getattr(node, 'handlers', []):
                out = []
                for st in h.body:
                    rep = self.statement(st, clsname)
                    if rep is None: out.append(st)
                    else: out.extend(rep); changed = True
                h.body = out
        # single-expression helpers inside larger expressions
        sub = _ExprInline(self, clsname)
        sub.visit(fn)
        changed = changed or sub.changed
        if changed and depth < 3: self.run_function(fn, clsname, depth + 1)
        return changed

    def statement(self, st, clsname):
        call, kind, target = None, None, None
        if isinstance(st, ast.Expr) and isinstance(st.value, ast.Call): call, kind = st.value, 'expr'
        elif isinstance(st, ast.Assign) and isinstance(st.value, ast.Call): call, kind, target = st.value, 'assign', st.targets
        elif isinstance(st, ast.Return) and isinstance(st.value, ast.Call): call, kind = st.value, 'return'
        if call is None or self.resolve(call, clsname)[0] is None:
            # a statement helper whose call is the first thing the statement evaluates, inside a larger expression
            # (`return self._checked(name, n), i`): hoist it into a temporary, then splice as an assignment
            val = getattr(st, 'value', None)
            if isinstance(st, (ast.Return, ast.Assign, ast.Expr)) and val is not None:
                fc = _first_call(val)
                if fc is not None and fc is not val:
                    helper, recv = self.resolve(fc, clsname)
                    body = _body(helper) if helper is not None else None
                    if helper is not None and not (len(body) == 1 and isinstance(body[0], ast.Return)):
                        m = self.bind(helper, fc, recv)
                        if m is not None:
                            tmp = '_h%d_ret' % (self.count + 1)
                            rep = self.splice(helper, m, 'assign', [ast.Name(id=tmp, ctx=ast.Store())])
                            if rep is not None:
                                st2 = _Replace(fc, ast.Name(id=tmp, ctx=ast.Load()), by_identity=True).visit(st)
                                out = rep + [st2]
                                for r in out:
                                    for x in ast.walk(r):
                                        if isinstance(x, (ast.stmt, ast.expr)) and not hasattr(x, 'lineno'): ast.copy_location(x, st)
                                return out
            return None
        helper, recv = self.resolve(call, clsname)
        if helper is None: return None
        m = self.bind(helper, call, recv)
        if m is None: return None
        rep = self.splice(helper, m, kind, target)
        if rep is None: return None
        for r in rep:
            ast.copy_location(r, st)
            for x in ast.walk(r):
                if not hasattr(x, 'lineno') and isinstance(x, (ast.stmt, ast.expr)): ast.copy_location(x, st)
        return rep or [ast.copy_location(ast.Pass(), st)]


class _ExprInline(ast.NodeTransformer):
    def __init__(self, inl, clsname): self.inl, self.clsname, self.changed = inl, clsname, False
    def visit_Call(self, node):
        self.generic_visit(node)
        helper, recv = self.inl.resolve(node, self.clsname)
        if helper is None: return node
        body = _body(helper)
        if len(body) != 1 or not isinstance(body[0], ast.Return) or body[0].value is None: return node
        m = self.inl.bind(helper, node, recv)
        if m is None: return node
        uses = {}
        for x in ast.walk(body[0].value):
            if isinstance(x, ast.Name): uses[x.id] = uses.get(x.id, 0) + 1
        if not all(_simple(a) or uses.get(p, 0) <= 1 for p, a in m.items()): return node
        if self.inl.locals_of(helper): return node          # comprehension variables etc. are fine; assigned locals are not
        self.changed = True
        new = _Bind(m, '', set()).visit(copy.deepcopy(body[0].value))
        return ast.copy_location(new, node)


def inline_helpers(tree, closures=None):
    inl = _Inliner(tree)
    closures = closures or {}
    if not inl.mod_helpers and not inl.cls_helpers and not closures: return tree

    def do(f, clsname):
        mine = [g for g in closures.get(id(f), []) if inl._ok_sig(g) and not (g.args.args and g.args.args[0].arg == 'self')]
        saved = dict(inl.mod_helpers)
        for g in mine: inl.mod_helpers[g.name] = g          # visible as helpers while this function is processed
        try:
            inl.skip = set(id(g) for g in mine)
            inl.run_function(f, clsname)
        finally:
            inl.mod_helpers = saved
            inl.skip = set()
        # a closure that is no longer referenced is dropped
        for g in mine:
            refs = [x for x in ast.walk(f) if isinstance(x, ast.Name) and x.id == g.name]
            if not refs:
                for node in ast.walk(f):
                    for field in ('body', 'orelse', 'finalbody'):
                        blk = getattr(node, field, None)
                        if isinstance(blk, list) and g in blk:
                            blk.remove(g)
                            if not blk: blk.append(ast.copy_location(ast.Pass(), g))
    for top in tree.body:
        if isinstance(top, ast.FunctionDef): do(top, None)
        elif isinstance(top, ast.ClassDef):
            for f in top.body:
                if isinstance(f, ast.FunctionDef): do(f, top.name)
    return tree
