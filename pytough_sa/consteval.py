"""Exact constant propagation for small pure helpers over finite domains.

A whitelist interpreter over the *AST* of a repo function, applied to constant
arguments supplied by the analyser (format tables, side subsets).  It is not
the Python interpreter running repo code: only the node kinds and builtins
below are understood and anything else raises AnalysisError (-> unknown).
"""
import ast
from .core import AnalysisError


class _Return(Exception):
    def __init__(self, v): self.v = v


class Raised(AnalysisError):
    """the interpreted code executed a `raise` (a model check may expect or forbid this; to everyone else it is one more
    reason the evaluation could not be completed)"""
    def __init__(self, what): AnalysisError.__init__(self, 'interpreted code raised: %s' % what); self.what = what


class _Break(Exception): pass
class _Continue(Exception): pass


class Obj(object):
    """A record whose attributes are assigned by the interpreted code."""
    def __init__(self): self.attrs = {}


BUILTINS = {
    'len': len, 'range': lambda *a: list(range(*a)), 'int': int, 'abs': abs,
    'min': min, 'max': max, 'sum': sum, 'set': set, 'list': list,
    'tuple': tuple, 'sorted': sorted, 'zip': lambda *a: list(zip(*a)),
    'enumerate': lambda x: list(enumerate(x)), 'all': all, 'any': any,
    'str': str, 'float': float, 'dict': dict, 'reversed': lambda x: list(reversed(x)),
    'True': True, 'False': False, 'None': None,
}
STR_METHODS = ('partition', 'strip', 'lstrip', 'rstrip', 'lower', 'upper',
               'startswith', 'endswith', 'ljust', 'rjust', 'isdigit', 'join',
               'replace', 'split', 'index', 'find')
LIST_METHODS = ('append', 'index', 'count', 'extend', 'pop', 'insert', 'reverse')
DICT_METHODS = ('items', 'keys', 'values', 'get')
SET_METHODS = ('add', 'intersection', 'union', 'issubset')


class Interp(object):
    def __init__(self, env=None, max_steps=200000, funcs=None, extra=None):
        self.env = dict(env or {})
        self.extra = dict(extra or {})      # further pure callables the analyser allows by name (sqrt, exp, ...)
        self.steps = 0
        self.max_steps = max_steps
        self.funcs = funcs or {}     # name -> ast.FunctionDef callable from the code

    def tick(self):
        self.steps += 1
        if self.steps > self.max_steps:
            raise AnalysisError('constant evaluation exceeded step bound')

    # -- statements ---------------------------------------------------------
    def call_function(self, fnode, args, kwargs=None):
        a = fnode.args
        names = [x.arg for x in a.args]
        env = {}
        defaults = a.defaults
        for i, n in enumerate(names):
            if i < len(args): env[n] = args[i]
            elif kwargs and n in kwargs: env[n] = kwargs[n]
            else:
                di = i - (len(names) - len(defaults))
                if di < 0: raise AnalysisError('missing argument %s' % n)
                env[n] = self.expr(defaults[di])
        sub = Interp(dict(self.env, **env), self.max_steps, self.funcs, self.extra)
        sub.steps = self.steps
        try:
            sub.block(fnode.body)
        except _Return as r:
            self.steps = sub.steps
            return r.v
        self.steps = sub.steps
        return None

    def block(self, stmts):
        for st in stmts:
            self.stmt(st)

    def stmt(self, st):
        self.tick()
        if isinstance(st, ast.Expr):
            if isinstance(st.value, ast.Constant): return   # docstring
            self.expr(st.value); return
        if isinstance(st, ast.Assign):
            v = self.expr(st.value)
            for t in st.targets: self.assign(t, v)
            return
        if isinstance(st, ast.AugAssign):
            cur = self.expr(_load(st.target))
            v = self.binop(st.op, cur, self.expr(st.value))
            self.assign(st.target, v); return
        if isinstance(st, ast.Return):
            raise _Return(self.expr(st.value) if st.value else None)
        if isinstance(st, ast.If):
            self.block(st.body if self.expr(st.test) else st.orelse); return
        if isinstance(st, ast.For):
            for x in list(self.expr(st.iter)):
                self.assign(st.target, x)
                try: self.block(st.body)
                except _Break: break
                except _Continue: continue
            else:
                self.block(st.orelse)
            return
        if isinstance(st, ast.While):
            while self.expr(st.test):
                self.tick()
                try: self.block(st.body)
                except _Break: break
                except _Continue: continue
            return
        if isinstance(st, ast.Break): raise _Break()
        if isinstance(st, ast.Continue): raise _Continue()
        if isinstance(st, ast.Pass): return
        if isinstance(st, ast.Raise): raise Raised(ast.unparse(st.exc)[:120] if st.exc is not None else 're-raise')
        if isinstance(st, ast.FunctionDef):
            self.funcs[st.name] = st; return
        raise AnalysisError('statement kind %s outside the constant-evaluation whitelist (line %s)'
                            % (type(st).__name__, getattr(st, 'lineno', '?')))

    def assign(self, t, v):
        if isinstance(t, ast.Name): self.env[t.id] = v
        elif isinstance(t, (ast.Tuple, ast.List)):
            v = list(v)
            if len(v) != len(t.elts): raise AnalysisError('unpack length mismatch')
            for a, b in zip(t.elts, v): self.assign(a, b)
        elif isinstance(t, ast.Subscript):
            c = self.expr(t.value)
            c[self.index(t.slice)] = v
        elif isinstance(t, ast.Attribute):
            o = self.expr(t.value)
            if not isinstance(o, Obj): raise AnalysisError('attribute store on non-record')
            o.attrs[t.attr] = v
        else:
            raise AnalysisError('assignment target %s not supported' % type(t).__name__)

    def index(self, s):
        if isinstance(s, ast.Slice):
            return slice(self.expr(s.lower) if s.lower else None,
                         self.expr(s.upper) if s.upper else None,
                         self.expr(s.step) if s.step else None)
        return self.expr(s)

    # -- expressions ----------------------------------------------------------
    def expr(self, n):
        self.tick()
        if isinstance(n, ast.Constant): return n.value
        if isinstance(n, ast.Name):
            if n.id in self.env: return self.env[n.id]
            if n.id in BUILTINS: return BUILTINS[n.id]
            if n.id in self.funcs: return self.funcs[n.id]
            raise AnalysisError('name %s unknown to constant evaluation' % n.id)
        if isinstance(n, ast.List): return [self.expr(e) for e in n.elts]
        if isinstance(n, ast.Tuple): return tuple(self.expr(e) for e in n.elts)
        if isinstance(n, ast.Set): return set(self.expr(e) for e in n.elts)
        if isinstance(n, ast.Dict):
            return dict((self.expr(k), self.expr(v)) for k, v in zip(n.keys, n.values))
        if isinstance(n, ast.BinOp):
            return self.binop(n.op, self.expr(n.left), self.expr(n.right))
        if isinstance(n, ast.UnaryOp):
            v = self.expr(n.operand)
            if isinstance(n.op, ast.USub): return -v
            if isinstance(n.op, ast.Not): return not v
            if isinstance(n.op, ast.UAdd): return +v
        if isinstance(n, ast.BoolOp):
            if isinstance(n.op, ast.And):
                v = True
                for e in n.values:
                    v = self.expr(e)
                    if not v: return v
                return v
            v = False
            for e in n.values:
                v = self.expr(e)
                if v: return v
            return v
        if isinstance(n, ast.Compare):
            left = self.expr(n.left)
            for op, c in zip(n.ops, n.comparators):
                right = self.expr(c)
                if not self.cmp(op, left, right): return False
                left = right
            return True
        if isinstance(n, ast.IfExp):
            return self.expr(n.body) if self.expr(n.test) else self.expr(n.orelse)
        if isinstance(n, ast.Subscript):
            c = self.expr(n.value)
            try: return c[self.index(n.slice)]
            except (IndexError, KeyError, TypeError) as e:
                raise AnalysisError('subscript failed in constant evaluation: %r' % (e,))
        if isinstance(n, ast.Attribute):
            o = self.expr(n.value)
            if isinstance(o, Obj):
                if n.attr in o.attrs: return o.attrs[n.attr]
                raise AnalysisError('record has no attribute %s' % n.attr)
            raise AnalysisError('attribute load %s outside whitelist' % n.attr)
        if isinstance(n, ast.Call): return self.call(n)
        if isinstance(n, (ast.ListComp, ast.GeneratorExp, ast.SetComp)):
            out = []
            self.comp(n.generators, 0, lambda: out.append(self.expr(n.elt)))
            return set(out) if isinstance(n, ast.SetComp) else out
        if isinstance(n, ast.DictComp):
            out = {}
            def add(): out[self.expr(n.key)] = self.expr(n.value)
            self.comp(n.generators, 0, add)
            return out
        raise AnalysisError('expression kind %s outside the constant-evaluation whitelist'
                            % type(n).__name__)

    def comp(self, gens, i, emit):
        if i == len(gens): emit(); return
        g = gens[i]
        for x in list(self.expr(g.iter)):
            self.assign(g.target, x)
            if all(self.expr(c) for c in g.ifs):
                self.comp(gens, i + 1, emit)

    def binop(self, op, a, b):
        try:
            if isinstance(op, ast.Add): return a + b
            if isinstance(op, ast.Sub): return a - b
            if isinstance(op, ast.Mult): return a * b
            if isinstance(op, ast.FloorDiv): return a // b
            if isinstance(op, ast.Mod): return a % b
            if isinstance(op, ast.Div): return a / b
            if isinstance(op, ast.BitAnd): return a & b
            if isinstance(op, ast.BitOr): return a | b
        except Exception as e:
            raise AnalysisError('arithmetic failed in constant evaluation: %r' % (e,))
        raise AnalysisError('operator %s outside whitelist' % type(op).__name__)

    def cmp(self, op, a, b):
        if isinstance(op, ast.Eq): return a == b
        if isinstance(op, ast.NotEq): return a != b
        if isinstance(op, ast.Lt): return a < b
        if isinstance(op, ast.LtE): return a <= b
        if isinstance(op, ast.Gt): return a > b
        if isinstance(op, ast.GtE): return a >= b
        if isinstance(op, ast.In): return a in b
        if isinstance(op, ast.NotIn): return a not in b
        if isinstance(op, ast.Is): return a is b
        if isinstance(op, ast.IsNot): return a is not b
        raise AnalysisError('comparison outside whitelist')

    def call(self, n):
        kwargs = dict((k.arg, self.expr(k.value)) for k in n.keywords)
        args = [self.expr(a) for a in n.args]
        f = n.func
        if isinstance(f, ast.Name):
            if f.id in self.extra and f.id not in self.env:
                try: return self.extra[f.id](*args, **kwargs)
                except Exception as e: raise AnalysisError('%s failed: %r' % (f.id, e))
            if f.id in self.funcs and f.id not in self.env:
                return self.call_function(self.funcs[f.id], args, kwargs)
            fn = self.expr(f)
            if isinstance(fn, ast.FunctionDef):
                return self.call_function(fn, args, kwargs)
            if fn in BUILTINS.values() and callable(fn):
                try: return fn(*args, **kwargs)
                except AnalysisError: raise
                except Exception as e:
                    raise AnalysisError('builtin %s failed: %r' % (f.id, e))
            raise AnalysisError('call of %s outside whitelist' % f.id)
        if isinstance(f, ast.Attribute):
            o = self.expr(f.value)
            if isinstance(o, Obj):
                # methods of a record are models supplied by the analyser (never repo code)
                m = o.attrs.get('__methods__', {}).get(f.attr)
                if m is None: raise AnalysisError('method .%s of a record has no model' % f.attr)
                return m(*args, **kwargs)
            ok = (isinstance(o, str) and f.attr in STR_METHODS) or \
                 (isinstance(o, list) and f.attr in LIST_METHODS) or \
                 (isinstance(o, dict) and f.attr in DICT_METHODS) or \
                 (isinstance(o, (set, frozenset)) and f.attr in SET_METHODS)
            if ok:
                try:
                    r = getattr(o, f.attr)(*args, **kwargs)
                except Exception as e:
                    raise AnalysisError('method %s failed: %r' % (f.attr, e))
                if isinstance(o, dict) and f.attr in ('items', 'keys', 'values'):
                    r = list(r)
                return r
            raise AnalysisError('method call .%s outside whitelist' % f.attr)
        # a callable the analyser itself put into the environment (a marker), reached through a subscript / attribute
        fn = self.expr(f)
        if callable(fn) and any(fn is v for v in self.extra.values()):
            return fn(*args, **kwargs)
        raise AnalysisError('call form outside whitelist')


def _load(t):
    import copy
    t2 = copy.deepcopy(t)
    for x in ast.walk(t2):
        if hasattr(x, 'ctx'): x.ctx = ast.Load()
    return t2
