"""Typed container-pair effect analysis (PAIR / BACKREF), re-key lint (REKEY)
and name/key coupling (NAMEKEY) shared by C08, C10, C19, C01."""
import ast
from .core import AnalysisError, norm, dotted, call_name, walk_no_nested, is_self_attr

# owner class -> [(dict attr, list attr, back-reference attr on the elements or None)]
PAIRS = {
    't2grid': [('block', 'blocklist', None), ('connection', 'connectionlist', 'connection_name'),
               ('rocktype', 'rocktypelist', None)],
    't2data': [('generator', 'generatorlist', None)],
    't2incon': [('_block', '_blocklist', None)],
    'mulgrid': [('node', 'nodelist', None), ('column', 'columnlist', 'column'), ('layer', 'layerlist', None),
                ('connection', 'connectionlist', ('connection', 'neighbour')), ('well', 'welllist', None)],
}
OWNER_CLASSES = set(PAIRS)
LIST_ADD = ('append', 'insert', 'extend')
LIST_REM = ('remove', 'pop')


def owner_receivers(prog, fi):
    """{receiver text: owner class} valid inside function fi"""
    out = {}
    if fi.cls is not None and fi.cls.name in OWNER_CLASSES:
        out['self'] = fi.cls.name
    if fi.cls is not None and fi.cls.name == 't2data':
        out['self.grid'] = 't2grid'

    def root_class(v):
        # t2grid(), mulgrid(...).rectangular(...), t2grid().fromgeo(geo)
        while isinstance(v, ast.Call):
            f = v.func
            if isinstance(f, ast.Name):
                return f.id if f.id in OWNER_CLASSES else None
            if isinstance(f, ast.Attribute):
                v = f.value
                continue
            return None
        if isinstance(v, ast.BinOp) and isinstance(v.op, ast.Add) and isinstance(v.left, ast.Name) \
           and v.left.id == 'self' and fi.cls is not None and fi.cls.name in OWNER_CLASSES:
            return fi.cls.name
        return None
    for n in ast.walk(fi.node):
        if isinstance(n, ast.Assign) and len(n.targets) == 1 and isinstance(n.targets[0], ast.Name):
            c = root_class(n.value)
            if c: out[n.targets[0].id] = c
    return out


class PairEvents(object):
    """extracts membership events of one simple statement / expression"""

    def __init__(self, prog, fi):
        self.prog, self.fi = prog, fi
        self.owners = owner_receivers(prog, fi)
        self.attrmap = {}       # (owner cls, attr) -> (pair index, 'D'|'L')
        for cls, pairs in PAIRS.items():
            for i, (d, l, b) in enumerate(pairs):
                self.attrmap[(cls, d)] = (i, 'D')
                self.attrmap[(cls, l)] = (i, 'L')
        self.backrefs = set()
        for pairs in PAIRS.values():
            for (_, _, b) in pairs:
                if isinstance(b, tuple): self.backrefs |= set(b)
                elif b: self.backrefs.add(b)
        self.loopvars = {}      # name -> (receiver, list attr) for `for v in R.L`
        self.fromdict = {}      # name -> (receiver, pair idx) for `v = R.D[k]`
        for n in ast.walk(fi.node):
            if isinstance(n, ast.Assign) and len(n.targets) == 1 and isinstance(n.targets[0], ast.Name) \
               and isinstance(n.value, ast.Subscript):
                c = self.classify(n.value.value)
                if c and c[3] == 'D': self.fromdict[n.targets[0].id] = (c[0], c[2])
        self.derived_locals = self._derived_locals()
        self.unresolved = []

    def classify(self, node):
        """node is R.attr -> (receiver text, owner cls, pair idx, side) or None"""
        if not isinstance(node, ast.Attribute): return None
        r = dotted(node.value)
        if r is None or r not in self.owners: return None
        cls = self.owners[r]
        m = self.attrmap.get((cls, node.attr))
        if m is None: return None
        return (r, cls, m[0], m[1])

    def _derived_locals(self):
        """local lists built only by appending values read out of an owner dict"""
        app = {}
        fromdict = set()
        for n in ast.walk(self.fi.node):
            if isinstance(n, ast.Assign) and len(n.targets) == 1 and isinstance(n.targets[0], ast.Name):
                v = n.value
                if isinstance(v, ast.Subscript) and self.classify(v.value) and self.classify(v.value)[3] == 'D':
                    fromdict.add(n.targets[0].id)
        for n in ast.walk(self.fi.node):
            if isinstance(n, ast.Call) and call_name(n) == 'append' and isinstance(n.func.value, ast.Name) and n.args:
                a = n.args[0]
                ok = (isinstance(a, ast.Subscript) and self.classify(a.value) and self.classify(a.value)[3] == 'D') or \
                     (isinstance(a, ast.Name) and a.id in fromdict)
                app.setdefault(n.func.value.id, []).append(bool(ok))
        return set(k for k, v in app.items() if v and all(v))

    def value_kind(self, v, side, rcv):
        """kind of a rebind value: empty / derived (from the partner) / copy / other"""
        if isinstance(v, (ast.Dict, ast.List)) and not (getattr(v, 'keys', None) or getattr(v, 'elts', None)):
            return 'empty'
        if isinstance(v, ast.Call) and call_name(v) in ('dict', 'list', 'set') and not v.args:
            return 'empty'
        if isinstance(v, ast.Call) and call_name(v) in ('deepcopy', 'copy'):
            return 'copy'
        # derived from the partner container of the same receiver
        for x in ast.walk(v):
            c = self.classify(x)
            if c and c[0] == rcv[0] and c[2] == rcv[2] and c[3] != side:
                return 'derived'
        if isinstance(v, ast.Name) and v.id in self.derived_locals:
            return 'derived'
        return 'other'

    def events(self, node):
        """list of (key, fact) for a statement or expression; key = (receiver, cls, pair idx)"""
        ev = []
        nodes = [node] + list(walk_no_nested(node))
        for n in nodes:
            # rebinding / stores
            if isinstance(n, ast.Assign):
                pairs = []
                for t in n.targets:
                    if isinstance(t, (ast.Tuple, ast.List)) and isinstance(n.value, (ast.Tuple, ast.List)) \
                       and len(t.elts) == len(n.value.elts):
                        pairs += list(zip(t.elts, n.value.elts))
                    else:
                        pairs.append((t, n.value))
                for t, v in pairs:
                    c = self.classify(t)
                    if c:
                        k = self.value_kind(v, c[3], c)
                        ev.append((c[:3], '%sReb:%s' % (c[3].lower(), k)))
                    if isinstance(t, ast.Subscript):
                        c = self.classify(t.value)
                        if c and c[3] == 'D':
                            # D[k] = v : resync if v is the loop variable over the partner list,
                            # re-key if v is D.pop(old)
                            if isinstance(v, ast.Name) and self.loopvars.get(v.id) == (c[0], c[2]):
                                ev.append((c[:3], 'resync'))
                            elif isinstance(v, ast.Name) and self.fromdict.get(v.id) == (c[0], c[2]):
                                ev.append((c[:3], 'rekey'))
                            elif isinstance(v, ast.Call) and call_name(v) == 'pop' and self.classify(v.func.value) == c:
                                ev.append((c[:3], 'rekey'))
                            else:
                                ev.append((c[:3], 'dAdd'))
                        elif c and c[3] == 'L':
                            if isinstance(t.slice, ast.Slice): ev.append((c[:3], 'lReb:other'))
                            else: ev.append((c[:3], 'lAdd'))      # replace element i
                    # back references: X.B = value
                    if isinstance(t, ast.Attribute) and t.attr in self.backrefs and not self.classify(t):
                        ev.append((None, 'bAdd:' + t.attr)); ev.append((None, 'bRem:' + t.attr))
            if isinstance(n, ast.Delete):
                for t in n.targets:
                    if isinstance(t, ast.Subscript):
                        c = self.classify(t.value)
                        if c: ev.append((c[:3], '%sRem' % c[3].lower()))
            if isinstance(n, ast.Call) and isinstance(n.func, ast.Attribute):
                m = n.func.attr
                c = self.classify(n.func.value)
                if c:
                    if c[3] == 'L':
                        if m in LIST_ADD: ev.append((c[:3], 'lAdd'))
                        elif m in LIST_REM:
                            # append(pop(i)) is a permutation
                            ev.append((c[:3], 'lRem'))
                        elif m in ('sort', 'reverse'): pass
                        elif m == 'clear': ev.append((c[:3], 'lRem'))
                    else:
                        if m in ('pop', 'popitem'):
                            ev.append((c[:3], 'dRem'))
                        elif m == 'clear': ev.append((c[:3], 'dRem'))
                        elif m in ('update', 'setdefault'): ev.append((c[:3], 'dAdd'))
                else:
                    # back-reference sets on elements: X.B.add / remove / discard
                    v = n.func.value
                    if isinstance(v, ast.Attribute) and v.attr in self.backrefs and not self.classify(v):
                        if m in ('add', 'update'): ev.append((None, 'bAdd:' + v.attr))
                        elif m in ('remove', 'discard', 'clear', 'difference_update'):
                            ev.append((None, 'bRem:' + v.attr))
        # normalise: `L.append(L.pop(i))` is a permutation; `D[new] = D.pop(old)` is a re-key
        keys = set(k for k, f in ev if f == 'rekey')
        out = []
        for k, f in ev:
            if k in keys and f == 'dRem': continue
            out.append((k, f))
        if isinstance(node, ast.Expr) and isinstance(node.value, ast.Call) and call_name(node.value) == 'append' \
           and node.value.args and isinstance(node.value.args[0], ast.Call) and call_name(node.value.args[0]) == 'pop':
            a, b = self.classify(node.value.func.value), self.classify(node.value.args[0].func.value)
            if a and a == b:
                out = [(k, f) for k, f in out if not (k == a[:3] and f in ('lAdd', 'lRem'))]
        return out


class PairWalker(object):
    """path-sensitive (alternatives of fact sets) walk; loops execute at least once"""
    CAP = 128

    def __init__(self, pe, callee_facts):
        self.pe = pe
        self.callee_facts = callee_facts     # fn(call node) -> list of (key, fact)
        self.exits = []                      # (node or 'fall', alts)
        self.overflow = False

    def add(self, alts, evs):
        pend = getattr(self, '_pending_alts', [])
        self._pending_alts = []
        alts = self._add(alts, evs)
        for choices in pend:
            nxt = set()
            for ch in choices: nxt |= self._add(alts, ch)
            alts = nxt
        return alts

    def _add(self, alts, evs):
        if not evs: return set(alts)
        out = set()
        for a in alts:
            s = set(a)
            for k, f in evs:
                if f == 'resync':
                    # a re-synchronising store cancels an earlier rebinding of that dict
                    s = set(x for x in s if not (x[0] == k and x[1].startswith('dReb')))
                    s.add((k, 'resync'))
                elif f == 'rekey':
                    s = set(x for x in s if not (x[0] == k and x[1] == 'dRem'))
                    s.add((k, 'rekey'))
                else:
                    s.add((k, f))
            out.add(frozenset(s))
        return out

    def stmt_events(self, node):
        """events of a simple statement: a list of facts, plus (under key '__alts__') the alternative fact
        lists contributed by unbalanced callees, one per path of the callee"""
        evs = list(self.pe.events(node))
        self._pending_alts = []
        for c in [node] + list(walk_no_nested(node)):
            if isinstance(c, ast.Call):
                r = self.callee_facts(c)
                if r and isinstance(r[0], list): self._pending_alts.append(r)
                else: evs += r
        return evs

    def walk(self, stmts, alts):
        for st in stmts:
            if not alts: return alts
            alts = self.stmt(st, alts)
            if len(alts) > self.CAP:
                self.overflow = True
                alts = set(list(alts)[:self.CAP])
        return alts

    def stmt(self, st, alts):
        if isinstance(st, ast.Return):
            if st.value is not None: alts = self.add(alts, self.stmt_events(st.value))
            self.exits.append((st, alts))
            return set()
        if isinstance(st, ast.Raise):
            return set()
        if isinstance(st, (ast.Break, ast.Continue, ast.Pass)):
            return alts
        if isinstance(st, ast.If):
            alts = self.add(alts, self.stmt_events(st.test))
            t_alts, f_alts = alts, alts
            # `if x in R.L:` guarding a removal: on the false branch there is nothing to remove
            mt = self._membership(st.test)
            if mt:
                key, side, positive = mt
                fact = (key, '%sRemAbsent' % side.lower())
                if positive: f_alts = set(frozenset(set(a) | set([fact])) for a in alts)
                else: t_alts = set(frozenset(set(a) | set([fact])) for a in alts)
            a = self.walk(st.body, t_alts)
            b = self.walk(st.orelse, f_alts)
            return a | b
        if isinstance(st, ast.For):
            alts = self.add(alts, self.stmt_events(st.iter))
            c = self.pe.classify(st.iter)
            if c and c[3] == 'L' and isinstance(st.target, ast.Name):
                self.pe.loopvars[st.target.id] = (c[0], c[2])
            out = self.walk(st.body, alts)
            if st.orelse: out = self.walk(st.orelse, out)
            return out
        if isinstance(st, ast.While):
            alts = self.add(alts, self.stmt_events(st.test))
            return self.walk(st.body, alts)
        if isinstance(st, ast.Try):
            body = self.walk(st.body, alts)
            res = set(body)
            if st.orelse: res = self.walk(st.orelse, body)
            # a single simple statement that raises has not had its effect (a key that pop() did not find was not deleted)
            single = len(st.body) == 1 and isinstance(st.body[0], (ast.Assign, ast.AugAssign, ast.Expr))
            for h in st.handlers:
                specific = h.type is not None and not (isinstance(h.type, ast.Name) and h.type.id in ('Exception', 'BaseException'))
                res |= self.walk(h.body, alts if (single and specific) else (alts | body))
            if st.finalbody: res = self.walk(st.finalbody, res)
            return res
        if isinstance(st, ast.With):
            return self.walk(st.body, alts)
        if isinstance(st, (ast.FunctionDef, ast.ClassDef, ast.Import, ast.ImportFrom, ast.Global)):
            return alts
        return self.add(alts, self.stmt_events(st))

    def _membership(self, test):
        """`x in R.C` / `x not in R.C` -> (key, side, positive)"""
        if isinstance(test, ast.Compare) and len(test.ops) == 1 and isinstance(test.ops[0], (ast.In, ast.NotIn)):
            c = self.pe.classify(test.comparators[0])
            if c: return (c[:3], c[3], isinstance(test.ops[0], ast.In))
        return None

    def run(self, fnode):
        alts = self.walk(fnode.body, set([frozenset()]))
        if alts: self.exits.append(('fall', alts))
        return self.exits


def _has(a, key, fact):
    return any(x[0] == key and x[1] == fact for x in a)


def _hasprefix(a, key, pre):
    return [x[1] for x in a if x[0] == key and x[1].startswith(pre)]


def imbalance(alt, key, backref):
    """list of problems of one alternative (a frozenset of facts) for one pair"""
    out = []
    dAdd, lAdd = _has(alt, key, 'dAdd'), _has(alt, key, 'lAdd')
    dRem = _has(alt, key, 'dRem') or _has(alt, key, 'dRemAbsent')
    lRem = _has(alt, key, 'lRem') or _has(alt, key, 'lRemAbsent')
    real_dRem, real_lRem = _has(alt, key, 'dRem'), _has(alt, key, 'lRem')
    dReb, lReb = _hasprefix(alt, key, 'dReb'), _hasprefix(alt, key, 'lReb')
    if dAdd and not lAdd: out.append('an entry is added to the dictionary but not to the list')
    if lAdd and not dAdd and not _has(alt, key, 'resync'):
        out.append('an element is added to / replaced in the list but the dictionary is not updated')
    if real_dRem and not lRem: out.append('an entry is deleted from the dictionary but not removed from the list')
    if real_lRem and not dRem: out.append('an element is removed from the list but its dictionary entry stays')
    d_plain = [r for r in dReb if not r.endswith('derived')]
    l_plain = [r for r in lReb if not r.endswith('derived')]
    if d_plain and not lReb: out.append('the dictionary is re-bound (%s) but the list is not' % d_plain[0].split(':')[1])
    if l_plain and not dReb: out.append('the list is re-bound (%s) but the dictionary is not: stale keys remain' % l_plain[0].split(':')[1])
    if any(r.endswith('copy') for r in dReb) and any(r.endswith('copy') for r in lReb):
        out.append('dictionary and list are copied separately: the two views hold different objects')
    for br in (backref if isinstance(backref, tuple) else ((backref,) if backref else ())):
        if dAdd and not any(x[0] is None and x[1] == 'bAdd:' + br for x in alt):
            out.append('an entry is added but no element\'s %s back-reference is updated' % br)
        if real_dRem and not any(x[0] is None and x[1] == 'bRem:' + br for x in alt):
            out.append('an entry is deleted but no element\'s %s back-reference is cleared' % br)
    return out


class PairAnalysis(object):
    def __init__(self, prog):
        self.prog = prog
        self.cache = {}
        self.facts = {}
        self.alts = {}
        self.callers = {}      # callee qual -> set of (caller FuncInfo, receiver text)

    def _retarget(self, key, r):
        """callee key (receiver as seen by the callee: self / self.grid) -> key seen by the caller"""
        rc = key[0]
        if rc == 'self': return (r,) + key[1:]
        if rc.startswith('self.'): return (r + rc[4:],) + key[1:]
        return None       # a local of the callee: not visible to the caller

    def analyse(self, fi, inline=True, _stack=()):
        """-> (problems: {key: [(exit, [msg])]}, keys touched)"""
        ck = (fi.qual, inline)
        if ck in self.cache: return self.cache[ck]
        if fi.qual in _stack: return {}, set()
        pe = PairEvents(self.prog, fi)

        def callee_facts(call):
            f = call.func
            if not inline or not isinstance(f, ast.Attribute): return []
            r = dotted(f.value)
            if r not in pe.owners: return []
            cls = self.prog.find_class(pe.owners[r])
            m = cls.methods.get(f.attr) if cls else None
            if m is None or m.node is fi.node: return []
            self.callers.setdefault(m.qual, set()).add((fi.qual, r))
            res, touched = self.analyse(m, True, _stack + (fi.qual,))
            if not any(probs for key, probs in res.items() if key != '__overflow__'): return []
            choices = []
            for alt in self.alts.get(m.qual, []):
                facts = []
                for x in alt:
                    if x[0] is None: facts.append(x)
                    else:
                        k2 = self._retarget(x[0], r)
                        if k2 is not None: facts.append((k2,) + tuple(x[1:]))
                if facts not in choices: choices.append(facts)
            return choices[:16]
        w = PairWalker(pe, callee_facts)
        exits = w.run(fi.node)
        keys = set()
        for _, alts in exits:
            for a in alts:
                for x in a:
                    if x[0] is not None: keys.add(x[0])
        res, facts_by_key = {}, {}
        for key in keys:
            backref = PAIRS[key[1]][key[2]][2]
            probs = []
            for node, alts in exits:
                for a in alts:
                    p = imbalance(a, key, backref)
                    if p: probs.append((node, p))
                    fs = facts_by_key.setdefault(key, set())
                    fs.update(x[1] for x in a if x[0] == key)
                    fs.update(x[1] for x in a if x[0] is None)
            res[key] = probs
        if w.overflow: res['__overflow__'] = True
        self.cache[ck] = (res, keys)
        if inline:
            self.facts[fi.qual] = dict((k, sorted(v)) for k, v in facts_by_key.items())
            self.alts[fi.qual] = sorted(set(a for _, alts in exits for a in alts), key=lambda a: sorted(map(repr, a)))
        return res, keys

    def verdicts(self, funcs):
        """for every function and pair key: 'ok' | ('violated', node, msgs) | 'inherited' | 'helper'"""
        funcs = list(funcs)
        for fi in funcs: self.analyse(fi, True)
        byqual = dict((f.qual, f) for f in funcs)
        out = []
        for fi in funcs:
            res_in, keys = self.analyse(fi, True)
            res_own, keys_own = self.analyse(fi, False)
            for key in sorted(keys | keys_own):
                p_in, p_own = res_in.get(key, []), res_own.get(key, [])
                if not p_in and not p_own:
                    out.append((fi, key, 'ok', None)); continue
                if p_own and not p_in:
                    out.append((fi, key, 'ok', 'balanced together with its helpers')); continue
                if p_in and not p_own:
                    out.append((fi, key, 'inherited', None)); continue      # reported at the callee
                # unbalanced on its own: a helper whose callers are all balanced is fine
                callers = self.callers.get(fi.qual, set())
                if callers:
                    allok = True
                    for cq, r in callers:
                        cf = byqual.get(cq)
                        if cf is None: allok = False; break
                        cres, _ = self.analyse(cf, True)
                        k2 = self._retarget(key, r)
                        if k2 is None or cres.get(k2): allok = False; break
                    if allok:
                        out.append((fi, key, 'helper', None)); continue
                out.append((fi, key, 'violated', p_in))
        return out


# ---------------------------------------------------------------------------
# REKEY

def rekey_sites(funcs):
    """loops that delete/pop D[k] and insert D[k2] in the same long-lived dict
    (an attribute of self / self.grid), outside a guard that tests the new key absent."""
    out = []
    for fi in funcs:
        if fi.cls is None: continue
        for loop in [n for n in walk_no_nested(fi.node) if isinstance(n, (ast.For, ast.While))]:
            dels, ins = {}, {}
            for n in ast.walk(loop):
                if isinstance(n, ast.Delete):
                    for t in n.targets:
                        if isinstance(t, ast.Subscript) and _is_attr_dict(t.value):
                            dels.setdefault(norm(t.value), []).append((n, t.slice))
                if isinstance(n, ast.Call) and call_name(n) == 'pop' and isinstance(n.func, ast.Attribute) \
                   and _is_attr_dict(n.func.value) and n.args:
                    dels.setdefault(norm(n.func.value), []).append((n, n.args[0]))
                if isinstance(n, ast.Assign):
                    for t in n.targets:
                        if isinstance(t, ast.Subscript) and _is_attr_dict(t.value):
                            ins.setdefault(norm(t.value), []).append((n, t.slice))
            for d in set(dels) & set(ins):
                # list attributes are not dictionaries: need a non-integer-looking key
                if d.endswith('list') or d.endswith('list]'): continue
                guarded = _guarded_by_absent_test(loop, ins[d], d)
                out.append((fi, loop, d, dels[d], ins[d], guarded))
    return out


def _is_attr_dict(v):
    d = dotted(v)
    return d is not None and (d.startswith('self.') and d.count('.') in (1, 2))


def _guarded_by_absent_test(loop, ins, dtext):
    """every insert sits in the else-branch of `if <newkey> in D:` (or body of `not in`)"""
    from .core import parent_map
    pm = parent_map(loop)
    for (n, key) in ins:
        cur, ok = n, False
        while cur in pm:
            par = pm[cur]
            if isinstance(par, ast.If) and isinstance(par.test, ast.Compare) and len(par.test.ops) == 1:
                t = par.test
                if norm(t.comparators[0]) == dtext and norm(t.left) == norm(key):
                    if isinstance(t.ops[0], ast.In) and cur in par.orelse: ok = True
                    if isinstance(t.ops[0], ast.NotIn) and cur in par.body: ok = True
            cur = par
        if not ok: return False
    return True


def rekey_fixture_ok():
    """positive control: the fixture's bad_* loops are found, its good_* are not"""
    import os
    from .core import ModuleInfo, VERIF
    m = ModuleInfo('rekey_fixture', os.path.join(VERIF, 'fixtures'))
    sites = rekey_sites(list(m.all_functions()))
    bad = set(fi.name for fi, loop, d, dels, ins, guarded in sites if not guarded)
    return bad == set(['bad_rename', 'bad_rename_pop']), sorted(bad)
