"""Engine core: program model, constant folder, outcome bookkeeping.

Standard library only.  Nothing here (or anywhere in pytough_sa) imports or
executes a PyTOUGH module; sources are parsed with ``ast`` on every run.
"""
import ast
import warnings
import hashlib
import json
import os
import re
import sys
import time

REPO = os.environ.get('PYTOUGH_SA_REPO', '/repo')
VERIF = os.path.dirname(os.path.dirname(os.path.abspath(__file__)))

MODULES = ['fixed_format_file', 'geometry', 'IAPWS97', 'mulgrids', 't2data',
           't2grids', 't2incons', 't2listing', 't2thermo']


class AnalysisError(Exception):
    """The code no longer has a shape the rule recognises (-> exit 2)."""


def norm(node):
    """Whitespace-normalised source text of a node (finding keys)."""
    if isinstance(node, str):
        return ' '.join(node.split())
    return ' '.join(ast.unparse(node).split())


def rel(test):
    """(small, strict, big) for a single ordering comparison, whichever way round it is written:
    `a < b` and `b > a` both give (a, True, b); `a <= b` / `b >= a` give (a, False, b).  None otherwise."""
    if isinstance(test, ast.Compare) and len(test.ops) == 1:
        o, l, r = test.ops[0], test.left, test.comparators[0]
        if isinstance(o, ast.Lt): return (l, True, r)
        if isinstance(o, ast.LtE): return (l, False, r)
        if isinstance(o, ast.Gt): return (r, True, l)
        if isinstance(o, ast.GtE): return (r, False, l)
    return None


def cnorm(text):
    """canonical text of an expression given as source text (same normal form as the analysed program)"""
    from .normalise import normalise
    return norm(normalise(ast.parse(text, mode='eval')).body)


def cnorm_block(src):
    """canonical one-line text of a statement sequence given as source text"""
    from .normalise import normalise
    import textwrap
    # inside a function, so that the statement-level rewrites (temporaries, returns) apply as they do in the program
    t = normalise(ast.parse('def _f():\n' + textwrap.indent(textwrap.dedent(src), '    ')))
    return ' '.join(norm(s) for s in t.body[0].body)


def digest(text):
    return hashlib.sha1(text.encode()).hexdigest()[:10]


# --------------------------------------------------------------------------
# program model

def argof(call, param):
    """the argument a call binds to the named parameter of a library callable: by keyword, or by position through the
    library-wide signature table (calls arrive in positional form where the keywords continued the positional prefix: N19)"""
    for k in call.keywords:
        if k.arg == param: return k.value
    from . import normalise as _nz
    fn = call.func.id if isinstance(call.func, ast.Name) else (call.func.attr if isinstance(call.func, ast.Attribute) else None)
    sig = _nz.LIBRARY_SIGNATURES.get(fn)
    if sig and param in sig and sig.index(param) < len(call.args): return call.args[sig.index(param)]
    return None


def srcline(n):
    """line of the node in the repository source (the tree itself is renumbered, see renumber())"""
    return getattr(n, '_srcline', getattr(n, 'lineno', 0))


def renumber(tree):
    """After normalisation a function may contain statements spliced in from a helper (N8) or copied by unrolling (N10): their
    original line numbers say nothing about where they now execute.  Rules compare positions through lineno / end_lineno, so
    every positioned node gets lineno = its pre-order index in the normalised tree and end_lineno = the largest index in its
    subtree (containment and order are exact); the source line is kept in _srcline for reports."""
    counter = [0]
    def go(n):
        has = hasattr(n, 'lineno')
        if has:
            if not hasattr(n, '_srcline'): n._srcline = n.lineno
            counter[0] += 1
            n.lineno = counter[0]; n.col_offset = 0
        for c in ast.iter_child_nodes(n): go(c)
        if has:
            n.end_lineno = counter[0]; n.end_col_offset = 0
    import sys
    lim = sys.getrecursionlimit()
    sys.setrecursionlimit(max(lim, 10000))
    try: go(tree)
    finally: sys.setrecursionlimit(lim)
    return tree


class FuncInfo(object):
    def __init__(self, module, cls, name, node, parent=None):
        self.module, self.cls, self.name, self.node = module, cls, name, node
        self.parent = parent
        parts = [module.name]
        if cls: parts.append(cls.name)
        if parent: parts.append(parent.name)
        parts.append(name)
        self.qual = '.'.join(parts)
        self.short = '.'.join(parts[1:])

    @property
    def file(self): return self.module.relpath

    def where(self, node=None):
        n = node if node is not None else self.node
        return '%s:%d (%s)' % (self.file, srcline(n), self.short)

    @property
    def params(self):
        a = self.node.args
        return [x.arg for x in a.posonlyargs + a.args]

    def __repr__(self): return '<func %s>' % self.qual


class ClassInfo(object):
    def __init__(self, module, node):
        self.module, self.node, self.name = module, node, node.name
        self.methods = {}
        self.properties = {}     # name -> (getter name, setter name or None)
        self.bases = [ast.unparse(b) for b in node.bases]
        self.class_attrs = {}
        def class_stmts(body):
            # methods may be defined under `if sys.version_info ...:` in the class body; the
            # later (else) definition wins, as it does at run time on Python 3
            for st in body:
                if isinstance(st, ast.If):
                    for x in class_stmts(st.body): yield x
                    for x in class_stmts(st.orelse): yield x
                else:
                    yield st
        self.body = list(class_stmts(node.body))
        for st in self.body:
            if isinstance(st, ast.FunctionDef):
                self.methods[st.name] = FuncInfo(module, self, st.name, st)
            elif isinstance(st, ast.Assign) and len(st.targets) == 1 and \
                 isinstance(st.targets[0], ast.Name):
                tname = st.targets[0].id
                v = st.value
                if isinstance(v, ast.Call) and isinstance(v.func, ast.Name) \
                   and v.func.id == 'property':
                    names = [a.id if isinstance(a, ast.Name) else None
                             for a in v.args]
                    kw = {k.arg: (k.value.id if isinstance(k.value, ast.Name) else None)
                          for k in v.keywords}
                    g = names[0] if names else kw.get('fget')
                    s = names[1] if len(names) > 1 else kw.get('fset')
                    self.properties[tname] = (g, s)
                else:
                    self.class_attrs[tname] = v
        # decorator-style properties
        for st in self.body:
            if isinstance(st, ast.FunctionDef):
                for d in st.decorator_list:
                    if isinstance(d, ast.Name) and d.id == 'property':
                        self.properties.setdefault(st.name, (st.name, None))

    def instance_attrs(self):
        """Names assigned as ``self.<name> = ...`` anywhere in the class."""
        out = set()
        for m in self.methods.values():
            for n in ast.walk(m.node):
                if isinstance(n, ast.Attribute) and isinstance(n.ctx, ast.Store) \
                   and isinstance(n.value, ast.Name) and n.value.id == 'self':
                    out.add(n.attr)
        return out


_NORM_KEY = [None]


def _normalised_tree(name, src, path, sha, store=True):
    """parse + normalise + renumber one module.  The result only depends on the module text, on the library-wide method /
    property names (N13) and on the analyser itself, so it is kept in a pickle under <verif>/.cache (git-ignored, rebuilt
    whenever it is missing or any of the three changed); a replay on a scratch copy with one patched module re-normalises
    that module only."""
    import pickle
    from . import normalise as nz
    if _NORM_KEY[0] is None:
        h = hashlib.sha1()
        here = os.path.dirname(os.path.abspath(__file__))
        for f in ('normalise.py', 'core.py'):
            with open(os.path.join(here, f), 'rb') as fh: h.update(fh.read())
        h.update(repr((sorted(nz.LIBRARY_METHODS), sorted(nz.LIBRARY_PROPERTIES), sorted(nz.LIBRARY_SIGNATURES.items()), sys.version_info[:2])).encode())
        try:
            with open(os.path.join(os.path.dirname(here), 'vocab.json'), 'rb') as fh:
                h.update(json.dumps(json.load(fh).get('_nested_baseline', {}), sort_keys=True).encode())
        except (IOError, ValueError): pass
        _NORM_KEY[0] = h.hexdigest()[:16]
    cdir = os.path.join(os.path.dirname(os.path.dirname(os.path.abspath(__file__))), '.cache')
    cfile = os.path.join(cdir, 'norm_%s_%s_%s.pkl' % (name, sha[:16], _NORM_KEY[0]))
    lim = sys.getrecursionlimit()
    sys.setrecursionlimit(max(lim, 20000))
    try:
        if os.environ.get('PYTOUGH_SA_NOCACHE') != '1':
            try:
                with open(cfile, 'rb') as fh: return pickle.load(fh)
            except Exception: pass
        with warnings.catch_warnings():
            warnings.simplefilter('ignore')
            tree = ast.parse(src, path)
        tree = nz.normalise(tree, name)
        renumber(tree)
        if store and os.environ.get('PYTOUGH_SA_NOCACHE') != '1':      # (scratch copies read the cache but never add to it)
            try:
                os.makedirs(cdir, exist_ok=True)
                tmp = cfile + '.%d.tmp' % os.getpid()
                with open(tmp, 'wb') as fh: pickle.dump(tree, fh, protocol=pickle.HIGHEST_PROTOCOL)
                os.replace(tmp, cfile)
                # keep the directory small: drop entries of other analyser versions
                for f in os.listdir(cdir):
                    if f.startswith('norm_') and not f.endswith('_%s.pkl' % _NORM_KEY[0]) and not f.endswith('.tmp'):
                        try: os.remove(os.path.join(cdir, f))
                        except OSError: pass
            except Exception: pass
        return tree
    finally:
        sys.setrecursionlimit(lim)


class ModuleInfo(object):
    def __init__(self, name, root):
        self.name = name
        self.path = os.path.join(root, name + '.py')
        self.relpath = name + '.py'
        with open(self.path, 'rb') as f:
            raw = f.read()
        self.src = raw.decode('utf-8', 'replace')
        self.sha = hashlib.sha1(raw).hexdigest()
        self.tree = _normalised_tree(name, self.src, self.path, self.sha, store=os.path.abspath(root) == os.path.abspath(REPO))
        self.nlines = self.src.count('\n') + 1
        self.classes, self.functions, self.globals = {}, {}, {}
        self.star_imports, self.imports = [], {}
        for st in self.tree.body:
            if isinstance(st, ast.ClassDef):
                self.classes[st.name] = ClassInfo(self, st)
            elif isinstance(st, ast.FunctionDef):
                self.functions[st.name] = FuncInfo(self, None, st.name, st)
            elif isinstance(st, ast.Assign):
                for t in st.targets:
                    if isinstance(t, ast.Name):
                        self.globals[t.id] = st.value
                    elif isinstance(t, (ast.Tuple, ast.List)) and \
                            isinstance(st.value, (ast.Tuple, ast.List)) and \
                            len(t.elts) == len(st.value.elts):
                        for a, b in zip(t.elts, st.value.elts):
                            if isinstance(a, ast.Name):
                                self.globals[a.id] = b
            elif isinstance(st, ast.ImportFrom):
                if any(a.name == '*' for a in st.names):
                    self.star_imports.append(st.module)
                else:
                    for a in st.names:
                        self.imports[a.asname or a.name] = (st.module, a.name)
            elif isinstance(st, ast.Import):
                for a in st.names:
                    self.imports[a.asname or a.name] = (a.name, None)

    def all_functions(self):
        for f in self.functions.values():
            yield f
        for c in self.classes.values():
            for m in c.methods.values():
                yield m


class Program(object):
    def __init__(self, root=None):
        self.root = root or REPO
        self.mods = {}
        self.consulted = {}        # rule -> quals of the functions fetched while it ran (vocabulary guard)
        self.current_rule = None
        # methods and properties of every class of the library (normalisation N13 needs them for all modules at once: a chain like
        # self.grid.num_blocks in t2data ends in a property of t2grids)
        from . import normalise as _nz
        meths, props = set(), set()
        raw_trees = []
        for name in MODULES:
            p = os.path.join(self.root, name + '.py')
            if not os.path.exists(p):
                raise AnalysisError('module %s.py not found under %s' % (name, self.root))
            try:
                with warnings.catch_warnings():
                    warnings.simplefilter('ignore')
                    with open(p, encoding='utf-8', errors='replace') as f: t = ast.parse(f.read())
                m_, p_ = _nz._module_attr_kinds(t)
                meths |= m_; props |= p_
                raw_trees.append(t)
            except SyntaxError as e:
                raise AnalysisError('module %s does not parse: %s' % (name, e))
        _nz.LIBRARY_METHODS, _nz.LIBRARY_PROPERTIES = meths, props
        _nz.LIBRARY_SIGNATURES = _nz.library_signatures(raw_trees)
        for name in MODULES:
            p = os.path.join(self.root, name + '.py')
            try:
                self.mods[name] = ModuleInfo(name, self.root)
            except SyntaxError as e:
                raise AnalysisError('module %s does not parse: %s' % (name, e))
        self.folder_cache = {}

    # ---- lookup --------------------------------------------------------
    def mod(self, name):
        if name not in self.mods:
            raise AnalysisError('no module ' + name)
        return self.mods[name]

    def cls(self, modname, clsname):
        m = self.mod(modname)
        if clsname not in m.classes:
            raise AnalysisError('anchor class %s.%s not found' % (modname, clsname))
        return m.classes[clsname]

    def func(self, qual):
        """'mod.func' or 'mod.Class.method' or 'mod.Class.method.nested'."""
        parts = qual.split('.')
        m = self.mod(parts[0])
        f = None
        if len(parts) == 2:
            f = m.functions.get(parts[1])
        elif len(parts) >= 3:
            c = m.classes.get(parts[1])
            if c is not None:
                f = c.methods.get(parts[2])
                rest = parts[3:]
            else:
                f = m.functions.get(parts[1])
                rest = parts[2:]
            for r in rest:
                if f is None: break
                f = self.nested(f, r, required=False)
        if f is None:
            raise AnalysisError('anchor function %s not found' % qual)
        self.consulted.setdefault(self.current_rule, set()).add(f.qual)
        return f

    def has_func(self, qual):
        try:
            self.func(qual); return True
        except AnalysisError:
            return False

    def nested(self, finfo, name, required=True):
        for n in ast.walk(finfo.node):
            if isinstance(n, ast.FunctionDef) and n.name == name and n is not finfo.node:
                self.consulted.setdefault(self.current_rule, set()).add(finfo.qual)
                return FuncInfo(finfo.module, finfo.cls, name, n, parent=finfo)
        if required:
            raise AnalysisError('nested function %s.%s not found' % (finfo.qual, name))
        return None

    def all_functions(self, modnames=None):
        for mn in (modnames or MODULES):
            for f in self.mod(mn).all_functions():
                yield f

    def resolve_global(self, modname, name, _seen=None):
        """Value node (and defining module) of a module-level name, following
        ``from X import *`` chains among the analysed modules."""
        _seen = _seen or set()
        if modname in _seen or modname not in self.mods:
            return None, None
        _seen.add(modname)
        m = self.mods[modname]
        if name in m.globals:
            return m.globals[name], modname
        if name in m.functions:
            return m.functions[name], modname
        if name in m.classes:
            return m.classes[name], modname
        if name in m.imports:
            src, orig = m.imports[name]
            if src in self.mods and orig:
                return self.resolve_global(src, orig, _seen)
        for s in m.star_imports:
            v, w = self.resolve_global(s, name, _seen)
            if v is not None:
                return v, w
        return None, None

    def find_class(self, name, frommod=None):
        order = ([frommod] if frommod else []) + MODULES
        for mn in order:
            if mn in self.mods and name in self.mods[mn].classes:
                return self.mods[mn].classes[name]
        return None

    def fold_global(self, modname, name):
        key = (modname, name)
        if key not in self.folder_cache:
            v, where = self.resolve_global(modname, name)
            if v is None or not isinstance(v, ast.AST):
                raise AnalysisError('global %s.%s not found' % (modname, name))
            self.folder_cache[key] = Folder(self, where).fold(v)
        return self.folder_cache[key]

    def stats(self):
        return {'modules': len(self.mods),
                'lines': sum(m.nlines for m in self.mods.values()),
                'functions': sum(1 for _ in self.all_functions()),
                'classes': sum(len(m.classes) for m in self.mods.values())}


# --------------------------------------------------------------------------
# constant folder

class Top(object):
    def __repr__(self): return 'TOP'
TOP = Top()


class Folder(object):
    """Folds literal expressions; anything else is TOP."""
    def __init__(self, prog, modname, env=None):
        self.prog, self.modname, self.env = prog, modname, dict(env or {})
        self.depth = 0

    def fold(self, n):
        try:
            return self._f(n)
        except _Unfoldable:
            return TOP

    def _f(self, n):
        if isinstance(n, ast.Constant):
            return n.value
        if isinstance(n, ast.List):
            return [self._f(e) for e in n.elts]
        if isinstance(n, ast.Tuple):
            return tuple(self._f(e) for e in n.elts)
        if isinstance(n, ast.Set):
            return set(self._f(e) for e in n.elts)
        if isinstance(n, ast.Dict):
            if any(k is None for k in n.keys): raise _Unfoldable()
            return dict((self._hash(self._f(k)), self._f(v)) for k, v in zip(n.keys, n.values))
        if isinstance(n, ast.UnaryOp):
            v = self._f(n.operand)
            if isinstance(n.op, ast.USub): return -v
            if isinstance(n.op, ast.UAdd): return +v
            if isinstance(n.op, ast.Not): return not v
            raise _Unfoldable()
        if isinstance(n, ast.BinOp):
            a, b = self._f(n.left), self._f(n.right)
            try:
                if isinstance(n.op, ast.Add): return a + b
                if isinstance(n.op, ast.Sub): return a - b
                if isinstance(n.op, ast.Mult):
                    if isinstance(b, int) and isinstance(a, (list, str, tuple)) and b > 10000:
                        raise _Unfoldable()
                    return a * b
                if isinstance(n.op, ast.Div): return a / b
                if isinstance(n.op, ast.FloorDiv): return a // b
                if isinstance(n.op, ast.Mod): return a % b
                if isinstance(n.op, ast.Pow):
                    if isinstance(b, (int, float)) and abs(b) < 64: return a ** b
            except _Unfoldable:
                raise
            except Exception:
                raise _Unfoldable()
            raise _Unfoldable()
        if isinstance(n, ast.Name):
            if n.id in self.env:
                v = self.env[n.id]
                if v is TOP: raise _Unfoldable()
                return v
            if n.id in ('True', 'False', 'None'):
                return {'True': True, 'False': False, 'None': None}[n.id]
            self.depth += 1
            if self.depth > 40: raise _Unfoldable()
            try:
                v, where = self.prog.resolve_global(self.modname, n.id)
                if v is None or not isinstance(v, ast.AST): raise _Unfoldable()
                return Folder(self.prog, where)._f(v)
            finally:
                self.depth -= 1
        if isinstance(n, ast.Subscript):
            v = self._f(n.value)
            if isinstance(n.slice, ast.Slice):
                lo = self._f(n.slice.lower) if n.slice.lower else None
                hi = self._f(n.slice.upper) if n.slice.upper else None
                st = self._f(n.slice.step) if n.slice.step else None
                try: return v[lo:hi:st]
                except Exception: raise _Unfoldable()
            i = self._f(n.slice)
            try: return v[i]
            except Exception: raise _Unfoldable()
        if isinstance(n, ast.Call):
            fn = n.func
            if isinstance(fn, ast.Name) and not n.keywords:
                args = [self._f(a) for a in n.args]
                try:
                    if fn.id == 'dict' and len(args) == 1:
                        return dict((self._hash(k), v) for k, v in args[0])
                    if fn.id == 'dict' and not args: return {}
                    if fn.id == 'zip': return list(zip(*args))
                    if fn.id == 'range' and all(isinstance(a, int) for a in args) :
                        r = range(*args)
                        if len(r) > 100000: raise _Unfoldable()
                        return list(r)
                    if fn.id == 'list' and len(args) <= 1: return list(*args)
                    if fn.id == 'tuple' and len(args) <= 1: return tuple(*args)
                    if fn.id == 'set' and len(args) <= 1: return set(*args)
                    if fn.id == 'len' and len(args) == 1: return len(args[0])
                    if fn.id == 'sum' and len(args) == 1: return sum(args[0])
                    if fn.id == 'int' and len(args) == 1: return int(args[0])
                    if fn.id == 'float' and len(args) == 1: return float(args[0])
                    if fn.id == 'str' and len(args) == 1 and isinstance(args[0], (int, str)):
                        return str(args[0])
                    if fn.id in ('min', 'max') and args:
                        return {'min': min, 'max': max}[fn.id](*args)
                    if fn.id == 'abs' and len(args) == 1: return abs(args[0])
                except _Unfoldable:
                    raise
                except Exception:
                    raise _Unfoldable()
            if isinstance(fn, ast.Attribute) and not n.keywords:
                # np.array(literal) -> list ; 'x'.join etc are not needed
                if fn.attr in ('array', 'asarray') and len(n.args) >= 1:
                    return self._f(n.args[0])
                if fn.attr == 'keys' and not n.args:
                    v = self._f(fn.value)
                    if isinstance(v, dict): return list(v.keys())
                if fn.attr == 'values' and not n.args:
                    v = self._f(fn.value)
                    if isinstance(v, dict): return list(v.values())
                if fn.attr == 'items' and not n.args:
                    v = self._f(fn.value)
                    if isinstance(v, dict): return list(v.items())
            raise _Unfoldable()
        if isinstance(n, ast.ListComp) and len(n.generators) == 1 and not n.generators[0].ifs:
            g = n.generators[0]
            it = self._f(g.iter)
            out = []
            for x in it:
                sub = Folder(self.prog, self.modname, self.env)
                sub._bind(g.target, x)
                out.append(sub._f(n.elt))
            return out
        if isinstance(n, ast.Compare) and len(n.ops) == 1:
            a, b = self._f(n.left), self._f(n.comparators[0])
            op = n.ops[0]
            try:
                if isinstance(op, ast.Eq): return a == b
                if isinstance(op, ast.NotEq): return a != b
                if isinstance(op, ast.Lt): return a < b
                if isinstance(op, ast.LtE): return a <= b
                if isinstance(op, ast.Gt): return a > b
                if isinstance(op, ast.GtE): return a >= b
                if isinstance(op, ast.In): return a in b
                if isinstance(op, ast.NotIn): return a not in b
            except Exception:
                raise _Unfoldable()
        if isinstance(n, ast.IfExp):
            return self._f(n.body) if self._f(n.test) else self._f(n.orelse)
        raise _Unfoldable()

    def _bind(self, target, value):
        if isinstance(target, ast.Name):
            self.env[target.id] = value
        elif isinstance(target, (ast.Tuple, ast.List)):
            value = list(value)
            if len(value) != len(target.elts): raise _Unfoldable()
            for t, v in zip(target.elts, value):
                self._bind(t, v)
        else:
            raise _Unfoldable()

    @staticmethod
    def _hash(k):
        if isinstance(k, list): return tuple(k)
        return k


class _Unfoldable(Exception):
    pass


# --------------------------------------------------------------------------
# AST helpers used by many rules

def walk_no_nested(node):
    """Pre-order (document order) walk that does not descend into nested
    function/class/lambda bodies."""
    for n in ast.iter_child_nodes(node):
        yield n
        if isinstance(n, (ast.FunctionDef, ast.Lambda, ast.ClassDef, ast.AsyncFunctionDef)):
            continue
        for x in walk_no_nested(n):
            yield x


def calls_in(node, nested=False):
    it = ast.walk(node) if nested else walk_no_nested(node)
    return sorted((n for n in it if isinstance(n, ast.Call)),
                  key=lambda n: (n.lineno, n.col_offset))


def call_name(call):
    """'f' for f(...), 'attr' for x.attr(...)."""
    f = call.func
    if isinstance(f, ast.Name): return f.id
    if isinstance(f, ast.Attribute): return f.attr
    return None


def dotted(node):
    """'a.b.c' for Name/Attribute chains, else None."""
    parts = []
    while isinstance(node, ast.Attribute):
        parts.append(node.attr)
        node = node.value
    if isinstance(node, ast.Name):
        parts.append(node.id)
        return '.'.join(reversed(parts))
    return None


def is_self_attr(node, attr=None):
    return isinstance(node, ast.Attribute) and isinstance(node.value, ast.Name) \
        and node.value.id == 'self' and (attr is None or node.attr == attr)


def stmts_of(node):
    """All statements (recursively) of a function body, not nested defs."""
    for n in walk_no_nested(node):
        if isinstance(n, ast.stmt):
            yield n


def parent_map(root):
    pm = {}
    for p in ast.walk(root):
        for c in ast.iter_child_nodes(p):
            pm[c] = p
    return pm


def const_str(node):
    return node.value if isinstance(node, ast.Constant) and isinstance(node.value, str) else None


def const_num(node):
    if isinstance(node, ast.Constant) and isinstance(node.value, (int, float)) \
            and not isinstance(node.value, bool):
        return node.value
    if isinstance(node, ast.UnaryOp) and isinstance(node.op, ast.USub):
        v = const_num(node.operand)
        return -v if v is not None else None
    return None
