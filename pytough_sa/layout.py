"""Record layout domain: folded format tables -> per-field layout."""
import re
from .core import AnalysisError, TOP

TABLES = [
    ('t2data', 't2data_format_specification'),
    ('t2data', 't2data_extra_precision_format_specification'),
    ('t2incons', 't2incon_format_specification'),
    ('mulgrids', 'mulgrid_format_specification'),
]

_FMT = re.compile(r'^(-?)(\d+)(?:\.(\d+))?([a-zA-Z])$')


class Field(object):
    __slots__ = ('name', 'fmt', 'width', 'prec', 'typ', 'start', 'end', 'left', 'raw_width')

    def __init__(self, name, fmt, start):
        m = _FMT.match(fmt)
        if not m:
            raise AnalysisError('format string %r not of the form [-]W[.P]t' % fmt)
        self.name, self.fmt = name, fmt
        self.left = bool(m.group(1))
        self.raw_width = int(m.group(1) + m.group(2))   # what int(fmt.partition('.')[0]) yields
        self.width = int(m.group(2))
        self.prec = int(m.group(3)) if m.group(3) is not None else None
        self.typ = m.group(4)
        self.start = start
        self.end = start + self.width

    def __repr__(self):
        return '%s:%s@%d-%d' % (self.name, self.fmt, self.start, self.end)


def fields_of(spec):
    names, fmts = spec
    out, pos = [], 0
    for n, f in zip(names, fmts):
        fld = Field(n, f, pos)
        out.append(fld)
        pos = fld.end
    return out


def load_table(prog, modname, tabname):
    tab = prog.fold_global(modname, tabname)
    if tab is TOP or not isinstance(tab, dict):
        raise AnalysisError('format table %s.%s does not fold to a literal dict' % (modname, tabname))
    out = {}
    for kind, spec in tab.items():
        if not (isinstance(spec, (list, tuple)) and len(spec) == 2):
            raise AnalysisError('record kind %r of %s is not [names, formats]' % (kind, tabname))
        out[kind] = spec
    return out


def layout(fields):
    return tuple((f.width, f.typ) for f in fields)
