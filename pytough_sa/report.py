"""Outcome bookkeeping, evidence writer, known-findings handling."""
import json
import os
import sys
import time

from .core import VERIF, digest, AnalysisError

OK, VIOLATED, UNKNOWN = 'discharged', 'violated', 'unknown'
# rules whose verdicts never rest on what a local variable is called (roles resolved by shape, attributes, call
# structure, arithmetic): their violations are exempt from the vocabulary guard
ROBUST_RULES = ('PRED', 'ARGSWAP', 'DIVSAFE', 'SHARED', 'PURE', 'CACHEINV', 'NAMEUSE', 'ANGIDX', 'UNIQGUARD', 'NONETEST', 'FLAVOUR',
                'SIGN', 'SELORDER', 'LAY', 'FIT', 'CHAIN', 'USE', 'POWNAME', 'TILE', 'DISPATCH', 'DECOMP', 'ENDPOINT', 'PAIR', 'REKEY', 'BIND', 'EXC',
                'ECHO', 'SOLVERARG', 'MUTDEFAULT', 'INDEXORDER', 'DUPROW', 'STARTDOM', 'UNIQLAST', 'NAMESPACE', 'LAYTOPS', 'SIMULFIRST', 'JUSTTEST', 'LOOPCARRY', 'NAMEIN', 'SETTERORDER', 'JUSTARG', 'STRREAD', 'TIMEPAIR')


# rules that only take an inventory (evidence, no verdict): their instance count may change freely
COUNT_EXEMPT = ('LOOPEXIT',)


class Obligation(object):
    __slots__ = ('rule', 'key', 'status', 'where', 'detail', 'robust')

    def __init__(self, rule, key, status, where, detail):
        self.rule, self.key, self.status = rule, key, status
        self.where, self.detail = where, detail
        self.robust = False     # True: the verdict does not rest on the name of any local variable (exempt from the vocabulary guard)

    @property
    def fullkey(self):
        return '%s :: %s' % (self.rule, self.key)

    def as_dict(self):
        d = {'rule': self.rule, 'key': self.key, 'status': self.status}
        if self.where: d['where'] = self.where
        if self.detail is not None: d['detail'] = self.detail
        return d


class Run(object):
    """Collects the obligations of one property check."""

    def __init__(self, pid, tier, prog):
        self.pid, self.tier, self.prog = pid, tier, prog
        self.obs = []
        self.floors = {}       # rule -> (min anchors, text)
        self.rule_doc = {}     # rule -> one-line statement of the rule
        self.trusted = []
        self.assumptions = []
        self.analysed = {}     # free-form counters
        self.notes = []
        self.t0 = time.time()
        self._current_rule = None
        self.robust_rules = set(ROBUST_RULES)

    @property
    def current_rule(self): return self._current_rule

    @current_rule.setter
    def current_rule(self, rule):
        self._current_rule = rule
        if self.prog is not None: self.prog.current_rule = rule      # functions fetched from now on belong to this rule

    # -- recording ---------------------------------------------------------
    def rule(self, rule, doc, floor=None):
        self.current_rule = rule
        self.rule_doc[rule] = doc
        if floor is not None:
            self.floors[rule] = floor

    def ok(self, key, detail=None, where=None, rule=None):
        self.obs.append(Obligation(rule or self.current_rule, key, OK, where, detail))

    def violated(self, key, detail, where=None, rule=None, robust=False):
        o = Obligation(rule or self.current_rule, key, VIOLATED, where, detail)
        o.robust = robust or (rule or self.current_rule) in self.robust_rules
        self.obs.append(o)

    def unknown(self, key, detail, where=None, rule=None):
        self.obs.append(Obligation(rule or self.current_rule, key, UNKNOWN, where, detail))

    def check(self, cond, key, detail_bad, where=None, detail_ok=None, rule=None):
        if cond: self.ok(key, detail_ok, where, rule)
        else: self.violated(key, detail_bad, where, rule)
        return cond

    def shape(self, cond, key, detail_unknown, where=None, detail_ok=None, rule=None):
        """for pure idiom recognition: discharged or *unknown*, never a violation"""
        if cond: self.ok(key, detail_ok, where, rule)
        else: self.unknown(key, detail_unknown, where, rule)
        return cond

    def trust(self, *items):
        for i in items:
            if i not in self.trusted: self.trusted.append(i)

    def assume(self, *items):
        for i in items:
            if i not in self.assumptions: self.assumptions.append(i)

    def count(self, name, n=1):
        self.analysed[name] = self.analysed.get(name, 0) + n

    def guarded(self, rule, fn, *a, **kw):
        """Run one rule; an AnalysisError / internal error becomes *unknown*."""
        if self.prog is not None: self.prog.current_rule = rule
        try:
            fn(self, *a, **kw)
        except AnalysisError as e:
            self.unknown('rule-aborted', str(e), rule=rule)
        except RecursionError as e:
            self.unknown('rule-aborted', 'recursion limit: %s' % e, rule=rule)
        except Exception as e:   # internal bug: fail closed, not a violation
            import traceback
            tb = traceback.format_exc().strip().splitlines()
            self.unknown('rule-aborted', 'internal error %s: %s | %s'
                         % (type(e).__name__, e, ' / '.join(tb[-4:])), rule=rule)

    # -- finish ------------------------------------------------------------
    def finalize(self, level_category='other', explanation='', write=True):
        known = load_known()
        # instance floors (after violations have been collected)
        for rule, fl in sorted(self.floors.items()):
            n = len(set(o.key for o in self.obs if o.rule == rule and o.key != 'rule-aborted'))
            if n < fl:
                self.obs.append(Obligation(
                    rule, 'instance-floor', UNKNOWN, None,
                    'rule matched %d anchors, floor confirmed by hand is %d '
                    '(a rule that matches nothing passes vacuously)' % (n, fl)))
        # vocabulary guard: a violation from a rule whose functions lost a local name the rules were written
        # against is not believed (a rename is behaviour-preserving) -> unknown
        from . import vocab
        vt = vocab.load()
        # instance counts confirmed on the reference tree (vocab.json, regenerated with the rules): a rule that finds fewer
        # instances than it did there has lost sight of a construct (an `if found:` without an else passes silently otherwise)
        for rule, want in sorted((vt.get('_counts', {}).get(self.pid, {}) if vt else {}).items()):
            if rule in COUNT_EXEMPT: continue
            n = len(set(o.key for o in self.obs if o.rule == rule and o.key != 'rule-aborted'))
            if n < want and not any(o.rule == rule and o.key == 'instance-floor' for o in self.obs):
                self.obs.append(Obligation(rule, 'instance-count', UNKNOWN, None,
                                           'rule decided %d instances, %d on the reference tree: a construct it used to check is no longer found' % (n, want)))
        cache = {}
        for o in self.obs:
            if o.status != VIOLATED or o.robust: continue
            kf = known.get((self.pid, o.fullkey))
            if kf is not None and kf.get('status') == 'known': continue      # confirmed by hand against the real code
            if o.rule not in cache: cache[o.rule] = vocab.missing_for(self, o.rule, vt)
            if cache[o.rule]:
                q, gone = cache[o.rule][0]
                o.status = UNKNOWN
                o.detail = 'not decided: local name(s) %s of %s that rule %s was written against no longer exist (renamed?); ' \
                           'undecided finding was: %s' % (gone, q, o.rule, o.detail)
        viol = [o for o in self.obs if o.status == VIOLATED]
        unk = [o for o in self.obs if o.status == UNKNOWN]
        okc = [o for o in self.obs if o.status == OK]
        new_viol, known_hits = [], []
        for o in viol:
            k = known.get((self.pid, o.fullkey))
            if k is not None and k.get('status') == 'known':
                known_hits.append((o, k))
            else:
                new_viol.append(o)
        out = []
        st = self.prog.stats() if self.prog else {}
        out.append('== %s  tier=%s  modules=%s functions=%s lines=%s' % (
            self.pid, self.tier, st.get('modules'), st.get('functions'), st.get('lines')))
        per_rule = {}
        for o in self.obs:
            r = per_rule.setdefault(o.rule, {OK: 0, VIOLATED: 0, UNKNOWN: 0})
            r[o.status] += 1
        for rule in sorted(per_rule):
            r = per_rule[rule]
            out.append('  rule %-10s obligations=%-4d discharged=%-4d violated=%-3d unknown=%-3d %s'
                       % (rule, sum(r.values()), r[OK], r[VIOLATED], r[UNKNOWN],
                          self.rule_doc.get(rule, '')[:110]))
        vdir = os.path.join(VERIF, 'evidence', 'violations')
        for o, k in known_hits:
            out.append('KNOWN-FINDING: property=%s %s [%s] %s' % (
                self.pid, k.get('what', o.detail), o.fullkey, o.where or ''))
        for o in new_viol:
            path = os.path.join(vdir, '%s-%s.json' % (self.pid, digest(o.fullkey)))
            if write:
                os.makedirs(vdir, exist_ok=True)
                with open(path, 'w') as f:
                    json.dump({'property': self.pid, 'rule': o.rule, 'key': o.key,
                               'where': o.where, 'detail': o.detail,
                               'rule_statement': self.rule_doc.get(o.rule, '')}, f, indent=1)
            out.append('  violated: [%s] %s\n      at %s\n      %s' % (
                o.rule, o.key, o.where, o.detail))
            out.append('VIOLATION property=%s replay=%s' % (self.pid, path))
        for o in unk:
            out.append('ANALYSIS-ERROR property=%s [%s] %s: %s %s' % (
                self.pid, o.rule, o.key, o.detail, o.where or ''))
        wall = time.time() - self.t0
        code = 1 if new_viol else (2 if unk else 0)
        out.append('-- %s: %d obligations, %d discharged, %d violated (%d known findings), '
                   '%d unknown; %.2fs; exit %d' % (
                       self.pid, len(self.obs), len(okc), len(viol), len(known_hits),
                       len(unk), wall, code))
        if write:
            self.write_evidence(level_category, explanation, okc, viol, unk,
                                known_hits, new_viol, per_rule, wall)
        print('\n'.join(out))
        return code

    def write_evidence(self, level, explanation, okc, viol, unk, known_hits,
                       new_viol, per_rule, wall):
        samples = []
        seen_rules = {}
        for o in self.obs:
            c = seen_rules.get(o.rule, 0)
            if c < 4 or o.status != OK:
                samples.append(o.as_dict())
                seen_rules[o.rule] = c + 1
        distinct = len(set(o.fullkey for o in self.obs))
        cov = {
            'obligations': len(self.obs),
            'discharged': len(okc),
            'violated': len(viol),
            'violated_known_findings': len(known_hits),
            'unknown': len(unk),
            'evaluations': len(self.obs),
            'distinct_nontrivial': distinct,
            'rule': 'one obligation per (rule, anchor instance) found in /repo\'s current '
                    'source by the AST analysis; distinct = distinct finding keys '
                    '(rule :: function :: instance), all non-trivial because each is a '
                    'proof obligation about a concrete construct of the code',
            'checker_cmd': '/venv/bin/python -m pytough_sa check %s --tier %s' % (self.pid, self.tier),
            'trusted_base': self.trusted,
            'explanation': explanation,
            'rules': dict((r, {'statement': self.rule_doc.get(r, ''),
                               'obligations': sum(v.values()),
                               'discharged': v[OK], 'violated': v[VIOLATED],
                               'unknown': v[UNKNOWN],
                               'instance_floor': self.floors.get(r)})
                          for r, v in sorted(per_rule.items())),
            'analysed': dict(self.analysed, **(self.prog.stats() if self.prog else {})),
            'module_sha1': dict((n, m.sha) for n, m in self.prog.mods.items()) if self.prog else {},
            'samples': samples[:400],
            'notes': self.notes,
            'selftest': getattr(self, 'selftest', None),
            'exhaustive': False,
        }
        ev = {'property_id': self.pid, 'tier': self.tier,
              'seed': int(os.environ.get('VERIF_SEED', '0') or 0),
              'level': level, 'coverage': cov,
              'assumptions': self.assumptions,
              'wall_s': round(wall, 3), 'violations': len(new_viol)}
        d = os.path.join(VERIF, 'evidence')
        os.makedirs(d, exist_ok=True)
        tmp = os.path.join(d, '.%s.json.tmp' % self.pid)
        with open(tmp, 'w') as f:
            json.dump(ev, f, indent=1, default=str)
        os.replace(tmp, os.path.join(d, '%s.json' % self.pid))


def load_known():
    p = os.path.join(VERIF, 'known_findings.json')
    out = {}
    if os.path.exists(p):
        with open(p) as f:
            data = json.load(f)
        for e in data.get('findings', []):
            out[(e['property'], e['key'])] = e
    return out
