"""Interval abstract interpretation of straight-line floating-point code (outward rounded).

IV(lo, hi) encloses every real value the expression can take when its inputs range over their intervals;
each operation widens its result by one ulp on both sides (math.nextafter), so rounding of the analyser's own
arithmetic cannot lose a value.  Used to prove that a denominator cannot be zero / a square-root argument cannot
be negative over a whole guarded input range, by subdividing the range (dependency problem)."""
import ast
import math
from .core import AnalysisError, Folder, TOP

INF = float('inf')


def _dn(x): return math.nextafter(x, -INF) if math.isfinite(x) else x
def _up(x): return math.nextafter(x, INF) if math.isfinite(x) else x


class IV(object):
    __slots__ = ('lo', 'hi')

    def __init__(self, lo, hi=None):
        self.lo, self.hi = float(lo), float(lo if hi is None else hi)

    def __repr__(self): return '[%.17g, %.17g]' % (self.lo, self.hi)
    def has_zero(self): return self.lo <= 0.0 <= self.hi
    def sign(self): return 1 if self.lo > 0 else (-1 if self.hi < 0 else 0)

    def __add__(a, b): return IV(_dn(a.lo + b.lo), _up(a.hi + b.hi))
    def __sub__(a, b): return IV(_dn(a.lo - b.hi), _up(a.hi - b.lo))
    def __neg__(a): return IV(-a.hi, -a.lo)

    def __mul__(a, b):
        if a is b:     # square: never negative
            if a.lo >= 0: return IV(_dn(a.lo * a.lo), _up(a.hi * a.hi))
            if a.hi <= 0: return IV(_dn(a.hi * a.hi), _up(a.lo * a.lo))
            return IV(0.0, _up(max(a.lo * a.lo, a.hi * a.hi)))
        c = (a.lo * b.lo, a.lo * b.hi, a.hi * b.lo, a.hi * b.hi)
        return IV(_dn(min(c)), _up(max(c)))

    def div(a, b):
        if b.has_zero(): return None
        c = (a.lo / b.lo, a.lo / b.hi, a.hi / b.lo, a.hi / b.hi)
        return IV(_dn(min(c)), _up(max(c)))

    def sqrt(a):
        if a.lo < 0: return None
        return IV(max(0.0, _dn(math.sqrt(a.lo))), _up(math.sqrt(a.hi)))


class Hazard(Exception):
    def __init__(self, kind, node, iv): self.kind, self.node, self.iv = kind, node, iv


class IVEval(object):
    """evaluates the assignments of one branch body; records per division / sqrt the enclosure of its operand"""

    def __init__(self, prog, modname, env, cache=None):
        self.prog, self.modname = prog, modname
        self.env = dict(env)            # name -> IV
        self.sites = {}                 # id(node) -> (kind, node, IV operand enclosure or None)
        self.cache = cache if cache is not None else {}      # id(node) -> folded constant (IV) or False
        self.defs = {}                  # local name -> (order, defining expression)

    def const(self, node):
        k = id(node)
        if k in self.cache: return self.cache[k] or None
        v = Folder(self.prog, self.modname).fold(node)
        if v is TOP or isinstance(v, bool) or not isinstance(v, (int, float)): r = None
        else: r = IV(float(v))
        self.cache[k] = r if r is not None else False
        return r

    def ev(self, e):
        if isinstance(e, ast.Name) and e.id in self.env: return self.env[e.id]
        if isinstance(e, (ast.Name, ast.Constant, ast.Subscript, ast.Attribute)) or id(e) in self.cache:
            c = self.const(e)
            if c is not None: return c
        if isinstance(e, ast.UnaryOp) and isinstance(e.op, ast.USub): return -self.ev(e.operand)
        if isinstance(e, ast.UnaryOp) and isinstance(e.op, ast.UAdd): return self.ev(e.operand)
        if isinstance(e, ast.BinOp):
            if isinstance(e.op, ast.Mult) and isinstance(e.left, ast.Name) and isinstance(e.right, ast.Name) and e.left.id == e.right.id:
                a = self.ev(e.left); return a * a
            a, b = self.ev(e.left), self.ev(e.right)
            if isinstance(e.op, ast.Add): return a + b
            if isinstance(e.op, ast.Sub): return a - b
            if isinstance(e.op, ast.Mult): return a * b
            if isinstance(e.op, ast.Div):
                if b.has_zero(): b = self.tighten(e.right, b)
                self.sites[id(e)] = ('division', e, b)
                r = a.div(b)
                if r is None: raise Hazard('division', e, b)
                return r
            if isinstance(e.op, ast.Pow) and isinstance(e.right, ast.Constant) and e.right.value == 2: return a * a
            if isinstance(e.op, ast.Pow) and isinstance(e.right, ast.Constant) and e.right.value == 0.5:
                self.sites[id(e)] = ('sqrt', e, a)
                r = a.sqrt()
                if r is None: raise Hazard('sqrt', e, a)
                return r
        if isinstance(e, ast.Call) and isinstance(e.func, (ast.Name, ast.Attribute)) and \
           (e.func.id if isinstance(e.func, ast.Name) else e.func.attr) == 'sqrt' and len(e.args) == 1:
            a = self.ev(e.args[0])
            if a.lo < 0: a = self.tighten(e.args[0], a)
            self.sites[id(e)] = ('sqrt', e, a)
            r = a.sqrt()
            if r is None: raise Hazard('sqrt', e, a)
            return r
        if isinstance(e, ast.Call) and isinstance(e.func, (ast.Name, ast.Attribute)) and not e.keywords:
            fn = e.func.id if isinstance(e.func, ast.Name) else e.func.attr
            if fn == 'log' and len(e.args) == 1:
                a = self.ev(e.args[0])
                if a.lo <= 0: raise Hazard('log', e, a)
                # libm log is accurate to about an ulp: widen by four
                lo, hi = math.log(a.lo), math.log(a.hi)
                for _ in range(4): lo, hi = _dn(lo), _up(hi)
                return IV(lo, hi)
            if fn in ('max', 'min') and len(e.args) == 2:
                a, b = self.ev(e.args[0]), self.ev(e.args[1])
                f = max if fn == 'max' else min
                return IV(f(a.lo, b.lo), f(a.hi, b.hi))
        raise AnalysisError('expression `%s` outside the interval evaluator' % ast.unparse(e))

    # -- exact range of a univariate quadratic ---------------------------------------------
    def tighten(self, expr, plain):
        """The operand written out as a polynomial of degree <= 2 in ONE local variable (definitions of later locals
        inlined, coefficients folded) has an exactly computable range over that variable's enclosure; interval
        evaluation of the expression as written loses it when the variable occurs several times
        (x*x - 4*(c1 + c2*d) with x = c2 + d  is  (d - c2)**2 - 4*c1).  Returns the intersection with `plain`."""
        try:
            e = expr
            for _ in range(8):
                names = sorted(set(n.id for n in ast.walk(e) if isinstance(n, ast.Name) and n.id in self.defs and self.const(n) is None),
                               key=lambda k: self.defs[k][0])
                free = sorted(set(n.id for n in ast.walk(e) if isinstance(n, ast.Name) and n.id in self.env and n.id not in self.defs))
                if len(names) + len(free) <= 1: break
                if not names: return plain
                e = _subst(e, names[-1], self.defs[names[-1]][1])
            vs = sorted(set(n.id for n in ast.walk(e) if isinstance(n, ast.Name) and n.id in self.env and self.const(n) is None))
            if len(vs) != 1: return plain
            v = vs[0]
            poly = self._poly(e, v)
            if poly is None or max(poly) > 2: return plain
            a, b, c = poly.get(2, IV(0.0)), poly.get(1, IV(0.0)), poly.get(0, IV(0.0))
            X = self.env[v]
            def at(x): return a * (x * x) + b * x + c
            vals = [at(IV(X.lo)), at(IV(X.hi))]
            if not a.has_zero():
                vx = (-b).div(a + a)
                if vx is not None and vx.hi >= X.lo and vx.lo <= X.hi:
                    vals.append(c - (b * b).div(a * IV(4.0)))
            elif a.lo != 0.0 or a.hi != 0.0:
                return plain
            lo, hi = min(x.lo for x in vals), max(x.hi for x in vals)
            return IV(max(lo, plain.lo), min(hi, plain.hi))
        except (AnalysisError, RecursionError):
            return plain

    def _poly(self, e, v):
        """{power: IV coefficient} or None"""
        if isinstance(e, ast.Name) and e.id == v: return {1: IV(1.0)}
        c = self.const(e) if isinstance(e, (ast.Name, ast.Constant, ast.Subscript, ast.Attribute)) else None
        if c is not None: return {0: c}
        if isinstance(e, ast.UnaryOp) and isinstance(e.op, ast.USub):
            p = self._poly(e.operand, v)
            return None if p is None else dict((k, -x) for k, x in p.items())
        if isinstance(e, ast.BinOp):
            l, r = self._poly(e.left, v), self._poly(e.right, v)
            if l is None or r is None: return None
            if isinstance(e.op, (ast.Add, ast.Sub)):
                out = dict(l)
                for k, x in r.items():
                    out[k] = (out[k] + x if isinstance(e.op, ast.Add) else out[k] - x) if k in out else (x if isinstance(e.op, ast.Add) else -x)
                return out
            if isinstance(e.op, ast.Mult):
                out = {}
                for k1, x1 in l.items():
                    for k2, x2 in r.items():
                        t = x1 * x2
                        out[k1 + k2] = out[k1 + k2] + t if (k1 + k2) in out else t
                return out
            if isinstance(e.op, ast.Div) and list(r) == [0] and not r[0].has_zero():
                return dict((k, x.div(r[0])) for k, x in l.items())
        return None

    def run(self, stmts):
        """straight-line assignments up to the first return; returns IV of the returned value"""
        for st in stmts:
            if isinstance(st, ast.Expr) and isinstance(st.value, ast.Constant): continue
            if isinstance(st, ast.Assign) and len(st.targets) == 1 and isinstance(st.targets[0], ast.Name):
                self.env[st.targets[0].id] = self.ev(st.value)
                self.defs[st.targets[0].id] = (len(self.defs), st.value)
            elif isinstance(st, ast.Return):
                return self.ev(st.value) if st.value is not None else None
            else:
                raise AnalysisError('statement `%s` outside the interval evaluator' % ast.unparse(st)[:60])
        return None


class _Sub(ast.NodeTransformer):
    def __init__(self, name, repl): self.name, self.repl = name, repl
    def visit_Name(self, n):
        return self.repl if n.id == self.name else n


def _subst(e, name, repl):
    import copy
    return _Sub(name, repl).visit(copy.deepcopy(e))
