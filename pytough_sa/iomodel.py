"""Record-sequence trees of fixed-format readers and writers.

A reader or writer function is abstracted to a tree over record events:
    ('seq', [t...]) ('loop', t) ('alt', [t...]) ('rec', kinds, how, node)
    ('blank',) ('kw', text) ('text',)
built from the structured code of the function, with helper methods that
receive the file object inlined (bounded depth).  Everything that does not
touch the file is dropped."""
import ast
from .core import AnalysisError, norm, dotted, call_name, walk_no_nested, const_str

READ_REC = {'read_values': 0, 'parse_string': 1, 'read_value_line': 1}
WRITE_REC = {'write_values': 1, 'write_value_line': 1}


class IOBuilder(object):
    def __init__(self, prog, role, max_depth=4):
        self.prog, self.role, self.max_depth = prog, role, max_depth
        self.unknown = []

    # ------------------------------------------------------------------
    def kinds_of(self, fi, e, env):
        """record kind expression -> tuple of possible kinds"""
        s = const_str(e)
        if s is not None: return (s,)
        if isinstance(e, ast.Subscript) and isinstance(e.value, ast.List) and all(const_str(x) for x in e.value.elts):
            return tuple(const_str(x) for x in e.value.elts)
        if isinstance(e, ast.Name):
            if e.id in env: return env[e.id]
        if isinstance(e, ast.IfExp):
            a, b = self.kinds_of(fi, e.body, env), self.kinds_of(fi, e.orelse, env)
            if a and b: return tuple(a) + tuple(x for x in b if x not in a)
        if isinstance(e, ast.BinOp) and isinstance(e.op, ast.Add):
            a, b = self.kinds_of(fi, e.left, env), self.kinds_of(fi, e.right, env)
            if a and b: return tuple(x + y for x in a for y in b)
        return None

    def local_kind_env(self, fi):
        """names bound to record kinds inside the function (a name bound in several places - the two arms of an if - stands
        for all of them)"""
        env = {}
        for n in walk_no_nested(fi.node):
            if isinstance(n, ast.Assign) and len(n.targets) == 1 and isinstance(n.targets[0], ast.Name):
                k = self.kinds_of(fi, n.value, env)
                if k:
                    old_ = env.get(n.targets[0].id, ())
                    env[n.targets[0].id] = tuple(old_) + tuple(x for x in k if x not in old_)
            # timing_fmt += '_toughreact'
            if isinstance(n, ast.AugAssign) and isinstance(n.target, ast.Name) and isinstance(n.op, ast.Add) \
               and const_str(n.value) and n.target.id in env:
                base = env[n.target.id]
                env[n.target.id] = tuple(base) + tuple(b + const_str(n.value) for b in base)
        return env

    # ------------------------------------------------------------------
    def tree(self, fi, filevar, depth=0):
        self.env = getattr(self, 'env', {})
        env = self.local_kind_env(fi)
        return self._block(fi, fi.node.body, filevar, env, depth)

    def _seq(self, items):
        items = [i for i in items if i is not None]
        flat = []
        for i in items:
            if i[0] == 'seq': flat += i[1]
            else: flat.append(i)
        if not flat: return None
        if len(flat) == 1: return flat[0]
        return ('seq', flat)

    def _block(self, fi, stmts, fv, env, depth):
        return self._seq([self._stmt(fi, s, fv, env, depth) for s in stmts])

    def _stmt(self, fi, st, fv, env, depth):
        if isinstance(st, ast.If):
            t = self._expr_events(fi, st.test, fv, env, depth)
            a = self._block(fi, st.body, fv, env, depth)
            b = self._block(fi, st.orelse, fv, env, depth)
            if a is None and b is None: return t
            return self._seq([t, ('alt', [a, b])])
        if isinstance(st, ast.For):
            it = self._expr_events(fi, st.iter, fv, env, depth)
            body = self._block(fi, st.body, fv, env, depth)
            # `for val in f.read_values(K)`: one record, iterated over its fields
            if it is not None and body is None: return it
            if it is not None: return self._seq([it, ('loop', body)])
            return ('loop', body) if body is not None else None
        if isinstance(st, ast.While):
            t = self._expr_events(fi, st.test, fv, env, depth)
            body = self._block(fi, st.body, fv, env, depth)
            inner = self._seq([t, body])
            return ('loop', inner) if inner is not None else None
        if isinstance(st, ast.Try):
            parts = [self._block(fi, st.body, fv, env, depth)]
            for h in st.handlers: parts.append(self._block(fi, h.body, fv, env, depth))
            parts.append(self._block(fi, st.orelse, fv, env, depth))
            return self._seq(parts)
        if isinstance(st, ast.With):
            return self._block(fi, st.body, fv, env, depth)
        if isinstance(st, (ast.FunctionDef, ast.ClassDef)):
            return None
        return self._expr_events(fi, st, fv, env, depth)

    def _expr_events(self, fi, node, fv, env, depth):
        """events of all calls inside a simple statement / expression, in source order"""
        evs = []
        calls = [n for n in ([node] if isinstance(node, ast.Call) else []) + list(walk_no_nested(node)) if isinstance(n, ast.Call)]
        calls.sort(key=lambda c: (c.lineno, c.col_offset))
        # inner calls are evaluated before outer ones: sort by end position instead
        calls.sort(key=lambda c: (c.end_lineno, c.end_col_offset))
        for c in calls:
            e = self._call(fi, c, fv, env, depth)
            if e is not None: evs.append(e)
        return self._seq(evs)

    def _call(self, fi, c, fv, env, depth):
        f = c.func
        if isinstance(f, ast.Attribute) and dotted(f.value) == fv:
            m = f.attr
            table = READ_REC if self.role == 'read' else WRITE_REC
            if m in table:
                idx = table[m]
                if idx >= len(c.args):
                    self.unknown.append((fi, c, 'record call without kind')); return None
                k = self.kinds_of(fi, c.args[idx], env)
                if k is None:
                    self.unknown.append((fi, c, 'record kind %s not resolved' % norm(c.args[idx]))); return None
                if m == 'parse_string' and depth == 0 and isinstance(c.args[0], ast.Name) and c.args[0].id in fi.params:
                    # the line was read by the caller (the keyword line itself): not a record of this section body
                    return ('kwrec', k, c, fi)
                return ('rec', k, m, c, fi)
            if m == 'write' and self.role == 'write':
                return self._raw_write(c)
            if m == 'readline' and self.role == 'read':
                return ('line', c, fi)
            return None
        # helper receiving the file object: self.helper(..., fv, ...) or dispatch table call
        passes = [i for i, a in enumerate(c.args) if isinstance(a, ast.Name) and a.id == fv]
        if not passes: return None
        if depth >= self.max_depth:
            self.unknown.append((fi, c, 'helper inlining depth exceeded')); return None
        targets = self._resolve_callees(fi, c)
        if not targets:
            self.unknown.append((fi, c, 'callee of %s not resolved' % norm(c.func))); return None
        subs = []
        for callee in targets:
            params = callee.params
            off = 1 if callee.cls is not None else 0
            pi = passes[0] + off
            if pi >= len(params):
                self.unknown.append((fi, c, 'argument position out of range')); continue
            sub = IOBuilder(self.prog, self.role, self.max_depth)
            t = sub.tree(callee, params[pi], depth + 1)
            self.unknown += sub.unknown
            subs.append(t)
        if len(subs) == 1: return subs[0]
        return ('alt', subs)

    def _resolve_callees(self, fi, c):
        f = c.func
        if isinstance(f, ast.Attribute) and dotted(f.value) == 'self' and fi.cls is not None:
            m = fi.cls.methods.get(f.attr)
            return [m] if m else []
        # read_fn[keyword](infile): literal dispatch dict / dict(zip(..)) bound in the same function
        if isinstance(f, ast.Subscript) and isinstance(f.value, ast.Name):
            d = dispatch_table(self.prog, fi, f.value.id)
            if d: return [m for m in d.values() if m is not None]
        return []

    def _raw_write(self, c):
        if not c.args: return None
        a = c.args[0]
        s = const_str(a)
        if s is not None:
            if s == '\n': return ('blank', c)
            if s.endswith('\n') and s.strip(): return ('kw', s.strip(), c)
            if s.strip(): return ('kwpart', s.strip(), c)
            return ('text', c)
        # X + '\n'
        if isinstance(a, ast.BinOp) and isinstance(a.op, ast.Add) and const_str(a.right) == '\n':
            return ('text', c)
        if isinstance(a, ast.BinOp) and isinstance(a.op, ast.Mod):
            return ('textpart', c)
        return ('text', c)


def dispatch_table(prog, fi, name):
    """{key: FuncInfo} for `name = {lit: self.m, ...}` or `name = dict(zip(<list>, [self.m...]))` in fi"""
    def is_table(v):
        return isinstance(v, ast.Dict) or (isinstance(v, ast.Call) and call_name(v) == 'dict' and v.args and
                                           isinstance(v.args[0], ast.Call) and call_name(v.args[0]) == 'zip')
    cands = [n for n in ast.walk(fi.node) if isinstance(n, ast.Assign) and len(n.targets) == 1 and
             norm(n.targets[0]) in (name, 'self.' + name)]
    if not cands:
        # the local may have any name: the role is "the one local dispatch table of this function"
        cands = [n for n in ast.walk(fi.node) if isinstance(n, ast.Assign) and len(n.targets) == 1 and
                 isinstance(n.targets[0], ast.Name) and is_table(n.value) and
                 any(isinstance(e, ast.Attribute) and dotted(e.value) == 'self' for e in ast.walk(n.value))]
        if len(cands) != 1: return None
    for n in cands:
        if True:
            v = n.value
            keys = vals = None
            if isinstance(v, ast.Dict):
                keys = [const_str(k) for k in v.keys]; vals = v.values
            elif isinstance(v, ast.Call) and call_name(v) == 'dict' and v.args and isinstance(v.args[0], ast.Call) \
                    and call_name(v.args[0]) == 'zip' and len(v.args[0].args) == 2:
                kexp, vexp = v.args[0].args
                from .core import Folder, TOP
                env = {}
                # keys may be a local literal list
                for a in ast.walk(fi.node):
                    if isinstance(a, ast.Assign) and isinstance(a.targets[0], ast.Name) and isinstance(a.value, ast.List):
                        try: env[a.targets[0].id] = [const_str(x) for x in a.value.elts]
                        except Exception: pass
                k = Folder(prog, fi.module.name, env).fold(kexp)
                if k is TOP or not isinstance(vexp, ast.List): return None
                keys, vals = list(k), vexp.elts
            if keys is None: continue
            out = {}
            for k, e in zip(keys, vals):
                m = None
                if isinstance(e, ast.Attribute) and dotted(e.value) == 'self' and fi.cls is not None:
                    m = fi.cls.methods.get(e.attr)
                out[k] = m
            if len(keys) != len(vals): out['__length_mismatch__'] = None
            return out
    return None


# ---------------------------------------------------------------------------
# normal form for sibling comparison

def blanks_as(t, kind):
    """assumption-table device: a blank line written where the reader parses a record of `kind`"""
    if t is None: return None
    k = t[0]
    if k == 'blank': return ('rec', (kind,), 'blank', t[1], None)
    if k == 'seq': return ('seq', [blanks_as(x, kind) for x in t[1]])
    if k == 'loop': return ('loop', blanks_as(t[1], kind))
    if k == 'alt': return ('alt', [blanks_as(x, kind) for x in t[1]])
    return t


def recs_only(t, equiv):
    """drop raw lines; canonicalise kinds through the layout-equivalence map"""
    if t is None: return None
    k = t[0]
    if k == 'rec':
        return ('rec', tuple(sorted(set(equiv.get(x, x) for x in t[1]))))
    if k in ('blank', 'kw', 'kwpart', 'text', 'textpart', 'line', 'kwrec'):
        return None
    if k == 'seq':
        items = [recs_only(x, equiv) for x in t[1]]
        items = [i for i in items if i is not None]
        flat = []
        for i in items:
            if i[0] == 'seq': flat += list(i[1])
            else: flat.append(i)
        if not flat: return None
        return flat[0] if len(flat) == 1 else ('seq', tuple(flat))
    if k == 'loop':
        b = recs_only(t[1], equiv)
        if b is None: return None
        if b[0] == 'loop': return b                 # loop of loop = loop (chunked lists)
        return ('loop', b)
    if k == 'alt':
        bs = [recs_only(x, equiv) for x in t[1]]
        nonempty = [b for b in bs if b is not None]
        if not nonempty: return None
        has_empty = len(nonempty) < len(bs)
        uniq = []
        for b in nonempty:
            if b not in uniq: uniq.append(b)
        if len(uniq) == 1:
            b = uniq[0]
            if not has_empty: return b
            if b[0] == 'opt': return b
            return ('opt', b)
        # alternatives that differ only by record kind with the same shape: merge kinds
        merged = _merge_alts(uniq)
        if merged is not None:
            return ('opt', merged) if has_empty else merged
        return ('alt', tuple(sorted(uniq, key=repr)), has_empty)
    raise AnalysisError('unknown tree node %r' % (k,))


def _merge_alts(alts):
    """alt(rec a, rec b) -> rec (a,b)"""
    if all(a[0] == 'rec' for a in alts):
        return ('rec', tuple(sorted(set(k for a in alts for k in a[1]))))
    return None


def simplify(t):
    """collapse opt(opt x), opt inside loop, seq of one"""
    if t is None: return None
    k = t[0]
    if k == 'rec': return t
    if k == 'opt':
        b = simplify(t[1])
        if b is None: return None
        if b[0] == 'opt': return b
        if b[0] == 'loop': return b        # a loop may run zero times anyway
        return ('opt', b)
    if k == 'loop':
        b = simplify(t[1])
        if b is None: return None
        if b[0] in ('opt', 'loop'): return ('loop', b[1]) if b[0] == 'opt' else b
        return ('loop', b)
    if k == 'seq':
        items = []
        for x in t[1]:
            s = simplify(x)
            if s is None: continue
            if s[0] == 'seq': items += list(s[1])
            else: items.append(s)
        if not items: return None
        return items[0] if len(items) == 1 else ('seq', tuple(items))
    if k == 'alt':
        return ('alt', tuple(simplify(x) for x in t[1]), t[2])
    return t


def flatten_alts(t):
    if t is None: return None
    k = t[0]
    if k == 'rec': return t
    if k in ('opt', 'loop'):
        b = flatten_alts(t[1])
        return (k, b) if b is not None else None
    if k == 'seq':
        return ('seq', tuple(flatten_alts(x) for x in t[1]))
    if k == 'alt':
        out, has_empty = [], t[2]
        for x in t[1]:
            x = flatten_alts(x)
            if x is None: has_empty = True; continue
            if x[0] == 'opt': has_empty = True; x = x[1]
            if x[0] == 'alt':
                has_empty = has_empty or x[2]
                out += list(x[1])
            else: out.append(x)
        uniq = []
        for x in out:
            if x not in uniq: uniq.append(x)
        if len(uniq) == 1: return ('opt', uniq[0]) if has_empty else uniq[0]
        return ('alt', tuple(sorted(uniq, key=repr)), has_empty)
    return t


def normal_form(tree, equiv, drop_kinds=()):
    t = recs_only(tree, equiv)
    t = simplify(flatten_alts(simplify(t)))
    t = _drop(t, set(drop_kinds))
    return simplify(flatten_alts(simplify(t))) if t is not None else None


def _drop(t, kinds):
    if t is None: return None
    k = t[0]
    if k == 'rec':
        ks = tuple(x for x in t[1] if x not in kinds)
        return ('rec', ks) if ks else None
    if k in ('opt', 'loop'):
        b = _drop(t[1], kinds)
        return (k, b) if b is not None else None
    if k == 'seq':
        items = [_drop(x, kinds) for x in t[1]]
        items = [i for i in items if i is not None]
        if not items: return None
        return items[0] if len(items) == 1 else ('seq', tuple(items))
    if k == 'alt':
        items = [_drop(x, kinds) for x in t[1]]
        he = t[2] or any(i is None for i in items)
        items = [i for i in items if i is not None]
        if not items: return None
        if len(items) == 1: return ('opt', items[0]) if he else items[0]
        return ('alt', tuple(items), he)
    return t


def included(w, r):
    """language inclusion (conservative): everything the writer tree can emit is accepted by the reader tree"""
    if w == r: return True
    if w is None:
        return r is None or r[0] in ('opt', 'loop') or (r[0] == 'alt' and r[2]) or \
            (r[0] == 'seq' and all(included(None, x) for x in r[1]))
    if r is None: return False
    if r[0] == 'opt':
        return included(w[1] if w[0] == 'opt' else w, r[1])
    if w[0] == 'opt':
        if r[0] == 'loop': return included(w[1], r)
        if r[0] == 'alt' and r[2]: return included(w[1], r)
        return False
    if r[0] == 'loop':
        if w[0] == 'loop': return included(w[1], r[1]) or included(w[1], r)
        if w[0] == 'seq':
            # a fixed sequence of iterations
            return all(included(x, r) for x in w[1]) or included(w, r[1])
        return included(w, r[1])
    if w[0] == 'loop': return False
    if r[0] == 'alt':
        ws = w[1] if w[0] == 'alt' else (w,)
        return all(any(included(x, y) for y in r[1]) for x in ws)
    if w[0] == 'alt':
        return all(included(x, r) for x in w[1]) and (not w[2] or included(None, r))
    if w[0] == 'rec' and r[0] == 'rec': return set(w[1]) <= set(r[1])
    if r[0] == 'seq':
        ws = list(w[1]) if w[0] == 'seq' else [w]
        return _seq_incl(ws, list(r[1]))
    if w[0] == 'seq' and r[0] == 'rec': return False
    return False


def _seq_incl(ws, rs):
    if not ws: return all(included(None, x) for x in rs)
    if not rs: return False
    if ws[0][0] == 'alt':
        ok = all(_seq_incl([x] + ws[1:], rs) for x in ws[0][1])
        return ok and (not ws[0][2] or _seq_incl(ws[1:], rs))
    if ws[0][0] == 'opt':
        return _seq_incl([ws[0][1]] + ws[1:], rs) and _seq_incl(ws[1:], rs)
    # writer loop guarded to run at least once against reader `X (X)*`
    if ws[0][0] == 'loop' and len(rs) >= 2 and rs[1][0] == 'loop' and rs[0][0] != 'loop' and \
       included(ws[0][1], rs[0]) and included(ws[0][1], rs[1][1]) and _seq_incl(ws[1:], rs[2:]):
        return True
    # match ws[0] against rs[0], or skip an optional rs[0]; a loop in rs may absorb several ws items
    if included(ws[0], rs[0]):
        if _seq_incl(ws[1:], rs[1:]): return True
        if rs[0][0] == 'loop' and _seq_incl(ws[1:], rs): return True
    if included(None, rs[0]) and _seq_incl(ws, rs[1:]): return True
    return False


def show(t):
    if t is None: return '-'
    k = t[0]
    if k == 'rec': return '|'.join(t[1])
    if k == 'opt': return '[%s]' % show(t[1])
    if k == 'loop': return '(%s)*' % show(t[1])
    if k == 'seq': return ' '.join(show(x) for x in t[1])
    if k == 'alt': return '{%s}' % ' / '.join(show(x) for x in t[1])
    return repr(t)


def first_difference(a, b, path='root'):
    if a == b: return None
    if a is None or b is None or a[0] != b[0]:
        return path, show(a), show(b)
    if a[0] == 'rec':
        return path, show(a), show(b)
    if a[0] in ('opt', 'loop'):
        return first_difference(a[1], b[1], path + '/' + a[0])
    if a[0] == 'seq':
        for i, (x, y) in enumerate(zip(a[1], b[1])):
            d = first_difference(x, y, '%s/%d' % (path, i))
            if d: return d
        return path, show(a), show(b)
    return path, show(a), show(b)


def layout_equiv(tables):
    """map record kind -> canonical representative of its layout class (same (width,type) tuple AND
    same field names), e.g. rocks1.2 == rocks1.3 == relative_permeability == capillarity"""
    from .layout import fields_of, layout
    classes = {}
    out = {}
    for tab in tables:
        for kind, spec in tab.items():
            try:
                key = layout(fields_of(spec))
            except AnalysisError:
                continue
            rep = classes.setdefault(key, kind)
            out[kind] = rep
    return out
