"""Role resolution for local variables.

Rules must not depend on what a local variable happens to be called: a rename
is behaviour-preserving.  A rule therefore names the *role* ("the variable that
holds the reversed key") by the shape of the value it is assigned from, and
this module finds the variable(s) playing it.  No match, or an ambiguous one,
is an AnalysisError (-> unknown, fail-closed), never a violation.
"""
import ast
from .core import AnalysisError, walk_no_nested


def assignments(fn_node, nested=False):
    """yields (name, value node, stmt) for every simple binding `name = value` in the function
    (tuple targets with a tuple value are split position by position)."""
    it = ast.walk(fn_node) if nested else walk_no_nested(fn_node)
    for n in it:
        if isinstance(n, ast.Assign):
            for t in n.targets:
                if isinstance(t, ast.Name):
                    yield t.id, n.value, n
                elif isinstance(t, (ast.Tuple, ast.List)) and isinstance(n.value, (ast.Tuple, ast.List)) \
                        and len(t.elts) == len(n.value.elts):
                    for a, b in zip(t.elts, n.value.elts):
                        if isinstance(a, ast.Name): yield a.id, b, n
        elif isinstance(n, ast.AnnAssign) and isinstance(n.target, ast.Name) and n.value is not None:
            yield n.target.id, n.value, n


def locals_where(fn_node, pred, nested=False):
    """names assigned (somewhere) a value satisfying pred, in first-assignment order"""
    out = []
    for name, v, st in assignments(fn_node, nested):
        try: hit = pred(v)
        except Exception: hit = False
        if hit and name not in out: out.append(name)
    return out


def one_local(fn_node, pred, what, nested=False):
    c = locals_where(fn_node, pred, nested)
    if len(c) != 1:
        raise AnalysisError('role "%s": %s' % (what, 'no variable plays it' if not c else 'ambiguous %s' % c))
    return c[0]


def is_reversed_slice(v, of=None):
    """X[::-1] (of the given variable name, if any)"""
    return isinstance(v, ast.Subscript) and isinstance(v.slice, ast.Slice) and v.slice.lower is None and \
        v.slice.upper is None and isinstance(v.slice.step, ast.UnaryOp) and isinstance(v.slice.step.op, ast.USub) and \
        isinstance(v.slice.step.operand, ast.Constant) and v.slice.step.operand.value == 1 and \
        (of is None or (isinstance(v.value, ast.Name) and v.value.id == of))


def names_in(node):
    return set(x.id for x in ast.walk(node) if isinstance(x, ast.Name))


def values_of(fn_node, name, nested=False):
    return [v for n, v, st in assignments(fn_node, nested) if n == name]


def param_names(fn_node):
    a = fn_node.args
    return [x.arg for x in a.posonlyargs + a.args + a.kwonlyargs] + \
        ([a.vararg.arg] if a.vararg else []) + ([a.kwarg.arg] if a.kwarg else [])


def inline_locals(expr, stmts, depth=6):
    """expr with every local that has exactly one plain definition among stmts replaced by that definition
    (recursively): what the expression is in terms of the names that come from outside"""
    import copy
    defs = {}
    for n in stmts:
        for x in ast.walk(n):
            if isinstance(x, ast.Assign) and len(x.targets) == 1 and isinstance(x.targets[0], ast.Name):
                defs[x.targets[0].id] = None if x.targets[0].id in defs else x.value
            elif isinstance(x, ast.Assign) and len(x.targets) == 1 and isinstance(x.targets[0], (ast.Tuple, ast.List)) and \
                    isinstance(x.value, (ast.Tuple, ast.List)) and len(x.targets[0].elts) == len(x.value.elts):
                # a, b = X, Y
                for a, b in zip(x.targets[0].elts, x.value.elts):
                    if isinstance(a, ast.Name): defs[a.id] = None if a.id in defs else b

    def go(e, d):
        class R(ast.NodeTransformer):
            def visit_Name(self, x):
                if isinstance(x.ctx, ast.Load) and defs.get(x.id) is not None and d < depth:
                    return go(copy.deepcopy(defs[x.id]), d + 1)
                return x
        return R().visit(copy.deepcopy(e))
    return go(expr, 0)
