"""Structured forward data-flow over Python statement lists.

The repository has only structured control flow (if / for / while / try /
with / break / continue / return / raise), so a compositional walk is exact for
path questions; no CFG library is needed.

An *analysis* supplies:
    transfer(stmt, state) -> state          simple statements (and loop heads)
    branch(test, state)  -> (s_true, s_false)   optional refinement on tests
    join(a, b)           -> state
State ``None`` means unreachable.  States must be immutable values (frozenset,
tuple, bool, ...).
"""
import ast


class Out(object):
    __slots__ = ('fall', 'rets', 'raises', 'brk', 'cont')

    def __init__(self, fall=None):
        self.fall = fall
        self.rets = []     # (node, state)
        self.raises = []   # (node, state)
        self.brk = []      # state
        self.cont = []


class Analysis(object):
    def transfer(self, stmt, state):
        return state

    def branch(self, test, state):
        return state, state

    def join(self, a, b):
        raise NotImplementedError

    def loop_head(self, node, state):
        """effect of evaluating a for-loop header (binding target) once."""
        return state

    def on_expr(self, expr, state):
        """effect of evaluating a test/iter expression"""
        return state

    # exceptions: which statements may raise into an enclosing handler
    def may_raise(self, stmt):
        return True


def _join(an, a, b):
    if a is None: return b
    if b is None: return a
    return an.join(a, b)


def _joinall(an, states):
    r = None
    for s in states:
        r = _join(an, r, s)
    return r


def const_truth(test):
    if isinstance(test, ast.Constant):
        return bool(test.value)
    return None


def run(an, stmts, state):
    out = Out()
    cur = state
    for st in stmts:
        if cur is None:
            break
        cur = _stmt(an, st, cur, out)
    out.fall = cur
    return out


def _merge(out, sub, loop=False):
    out.rets.extend(sub.rets)
    out.raises.extend(sub.raises)
    if not loop:
        out.brk.extend(sub.brk)
        out.cont.extend(sub.cont)


def _stmt(an, st, cur, out):
    if isinstance(st, ast.Return):
        cur = an.transfer(st, cur)
        out.rets.append((st, cur))
        return None
    if isinstance(st, ast.Raise):
        cur = an.transfer(st, cur)
        out.raises.append((st, cur))
        return None
    if isinstance(st, ast.Break):
        out.brk.append(cur); return None
    if isinstance(st, ast.Continue):
        out.cont.append(cur); return None
    if isinstance(st, ast.If):
        cur = an.on_expr(st.test, cur)
        t, f = an.branch(st.test, cur)
        ct = const_truth(st.test)
        if ct is True: f = None
        if ct is False: t = None
        a = run(an, st.body, t) if t is not None else Out()
        b = run(an, st.orelse, f) if f is not None else Out()
        _merge(out, a); _merge(out, b)
        return _join(an, a.fall, b.fall)
    if isinstance(st, (ast.For, ast.While)):
        return _loop(an, st, cur, out)
    if isinstance(st, ast.Try):
        return _try(an, st, cur, out)
    if isinstance(st, ast.With):
        for it in st.items:
            cur = an.on_expr(it.context_expr, cur)
        cur = an.transfer(st, cur)
        sub = run(an, st.body, cur)
        _merge(out, sub)
        return sub.fall
    if isinstance(st, (ast.FunctionDef, ast.ClassDef)):
        return an.transfer(st, cur)
    return an.transfer(st, cur)


def _loop(an, st, cur, out):
    is_for = isinstance(st, ast.For)
    if is_for:
        cur = an.on_expr(st.iter, cur)
    head = cur
    exits = []
    last = None
    for _ in range(50):
        if is_for:
            inbody = an.loop_head(st, head)
            exit_state = head        # iterator exhausted
        else:
            h2 = an.on_expr(st.test, head)
            inbody, exit_state = an.branch(st.test, h2)
            ct = const_truth(st.test)
            if ct is True: exit_state = None
            if ct is False: inbody = None
        sub = run(an, st.body, inbody) if inbody is not None else Out()
        back = _joinall(an, [sub.fall] + sub.cont)
        newhead = _join(an, cur, back)
        last = (sub, exit_state)
        if newhead == head:
            break
        head = newhead
    sub, exit_state = last
    _merge(out, sub, loop=True)
    # normal exhaustion runs orelse; break skips it
    after = exit_state
    if st.orelse and after is not None:
        o = run(an, st.orelse, after)
        _merge(out, o)
        after = o.fall
    return _joinall(an, [after] + sub.brk)


def _try(an, st, cur, out):
    rec = _Recorder(an)
    body = run(rec, st.body, cur)
    # state at handler entry: any intermediate state of the body
    if getattr(an, 'handler_from_entry', False):
        hstate = cur      # documented assumption of the analysis: exceptions precede the tracked effects
    elif len(st.body) == 1 and isinstance(st.body[0], (ast.Assign, ast.AugAssign, ast.Expr)):
        # a single simple statement: when it raises, its own effect (a key popped, a value bound) has not taken place
        hstate = cur
    else:
        hstate = _joinall(an, [cur] + rec.seen + [s for _, s in body.raises])
    fall_states = []
    pending = Out()
    bodyfall = body.fall
    if st.orelse and bodyfall is not None:
        o = run(an, st.orelse, bodyfall)
        _merge(pending, o)
        bodyfall = o.fall
    fall_states.append(bodyfall)
    pending.rets.extend(body.rets)
    pending.brk.extend(body.brk); pending.cont.extend(body.cont)
    catches_all = any(h.type is None or
                      (isinstance(h.type, ast.Name) and h.type.id in ('Exception', 'BaseException'))
                      for h in st.handlers)
    if not catches_all or not st.handlers:
        pending.raises.extend(body.raises)
    for h in st.handlers:
        hs = an.transfer(h, hstate) if hstate is not None else None
        if hs is None: continue
        o = run(an, h.body, hs)
        _merge(pending, o)
        fall_states.append(o.fall)
    after = _joinall(an, fall_states)
    if st.finalbody:
        # finally runs on every exit; approximate by running it on the fall
        # state and on each pending exit state
        def fin(s):
            if s is None: return None
            o = run(an, st.finalbody, s)
            _merge(out, o)
            return o.fall
        after = fin(after)
        pending.rets = [(n, fin(s)) for n, s in pending.rets]
        pending.raises = [(n, fin(s)) for n, s in pending.raises]
        pending.brk = [fin(s) for s in pending.brk]
        pending.cont = [fin(s) for s in pending.cont]
    _merge(out, pending)
    return after


class _Recorder(Analysis):
    """Wraps an analysis and records every intermediate state (for handlers)."""
    def __init__(self, an):
        self.an = an
        self.seen = []
        self.handler_from_entry = getattr(an, 'handler_from_entry', False)

    def transfer(self, stmt, state):
        s = self.an.transfer(stmt, state)
        if s is not None: self.seen.append(s)
        return s

    def branch(self, test, state):
        t, f = self.an.branch(test, state)
        for s in (t, f):
            if s is not None: self.seen.append(s)
        return t, f

    def join(self, a, b): return self.an.join(a, b)

    def loop_head(self, node, state):
        s = self.an.loop_head(node, state)
        if s is not None: self.seen.append(s)
        return s

    def on_expr(self, expr, state):
        s = self.an.on_expr(expr, state)
        if s is not None: self.seen.append(s)
        return s


# --------------------------------------------------------------------------
# ready-made analyses

class MustPass(Analysis):
    """state = True once a statement/expression satisfying pred was executed
    on every path (join = and)."""
    def __init__(self, pred, kill=None):
        self.pred, self.kill = pred, kill

    def _scan(self, node, state):
        if self.kill is not None and self.kill(node):
            state = False
        if self.pred(node):
            return True
        return state

    def transfer(self, stmt, state):
        if isinstance(stmt, ast.ExceptHandler):
            return state
        if isinstance(stmt, ast.With):
            return state
        return self._scan(stmt, state)

    def on_expr(self, expr, state):
        return self._scan(expr, state)

    def loop_head(self, node, state):
        return state

    def join(self, a, b):
        return a and b


def must_pass(fnode_or_stmts, pred, kill=None, include_raises=False):
    """Returns list of exits (node or 'fall') reached on some path WITHOUT
    having passed a statement satisfying pred.  pred(node) gets statements and
    test/iter expressions."""
    stmts = fnode_or_stmts.body if isinstance(fnode_or_stmts, (ast.FunctionDef, ast.Module)) \
        else fnode_or_stmts
    an = MustPass(pred, kill)
    o = run(an, stmts, False)
    bad = []
    if o.fall is False: bad.append('fall')
    for n, s in o.rets:
        if s is False: bad.append(n)
    if include_raises:
        for n, s in o.raises:
            if s is False: bad.append(n)
    return bad


class DefAssign(Analysis):
    """Definite assignment of local names: state = frozenset of names
    certainly bound."""
    def __init__(self):
        self.uses_unbound = []   # (name node, state)

    @staticmethod
    def targets(t, acc):
        if isinstance(t, ast.Name): acc.add(t.id)
        elif isinstance(t, (ast.Tuple, ast.List)):
            for e in t.elts: DefAssign.targets(e, acc)
        elif isinstance(t, ast.Starred): DefAssign.targets(t.value, acc)

    def transfer(self, stmt, state):
        acc = set()
        if isinstance(stmt, ast.Assign):
            for t in stmt.targets: self.targets(t, acc)
        elif isinstance(stmt, (ast.AugAssign, ast.AnnAssign)):
            self.targets(stmt.target, acc)
        elif isinstance(stmt, (ast.FunctionDef, ast.ClassDef)):
            acc.add(stmt.name)
        elif isinstance(stmt, (ast.Import, ast.ImportFrom)):
            for a in stmt.names: acc.add((a.asname or a.name).split('.')[0])
        elif isinstance(stmt, ast.With):
            for it in stmt.items:
                if it.optional_vars is not None: self.targets(it.optional_vars, acc)
        elif isinstance(stmt, ast.ExceptHandler):
            if stmt.name: acc.add(stmt.name)
        return state | frozenset(acc) if acc else state

    def loop_head(self, node, state):
        acc = set()
        self.targets(node.target, acc)
        return state | frozenset(acc)

    def join(self, a, b):
        return a & b


def state_at(fnode, target_stmt, an, init):
    """Runs analysis and returns the state just before target_stmt (joined over
    all visits)."""
    class Probe(Analysis):
        def __init__(self):
            self.states = []
        def transfer(self, stmt, state):
            if stmt is target_stmt: self.states.append(state)
            return an.transfer(stmt, state)
        def branch(self, t, s): return an.branch(t, s)
        def join(self, a, b): return an.join(a, b)
        def loop_head(self, n, s):
            if n is target_stmt: self.states.append(s)
            return an.loop_head(n, s)
        def on_expr(self, e, s): return an.on_expr(e, s)
    p = Probe()
    # loops are represented by their statement node: probe for/while too
    orig_loop = _loop
    run(p, fnode.body, init)
    return _joinall(an, p.states)
