"""Fixture for rule REKEY (parsed, never imported).  bad_* must be reported, good_* must not."""

class owner(object):

    def bad_rename(self, mapping):
        for k, v in mapping.items():
            if k in self.item:
                x = self.item[k]
                del self.item[k]
                self.item[v] = x

    def bad_rename_pop(self, old, new):
        for o, n in zip(old, new):
            self.item[n] = self.item.pop(o)

    def good_rebuild(self, mapping):
        self.item = dict([(mapping.get(k, k), v) for k, v in self.item.items()])

    def good_guarded(self, names):
        for n in names:
            if n in self.item: pass
            else:
                o = n[::-1]
                x = self.item[o]
                del self.item[o]
                self.item[n] = x
