"""Fixture for rule DIM (parsed, never imported)."""

class fixture(object):

    def bad_volume_sum(self, lay, col):
        surf = col.surface
        return (surf + lay.bottom) * col.area

    def bad_centre_halfdiff(self, lay, col):
        return 0.5 * (lay.bottom - col.surface)

    def good_volume(self, lay, col):
        surf = col.surface
        return (surf - lay.bottom) * col.area

    def good_centre(self, lay, col):
        return 0.5 * (lay.bottom + col.surface)
