"""Fixture for rule CACHEINV (parsed, never imported): class `bad` memoises a value derived from node positions and
nothing resets it where positions are written; class `good` resets it."""


class badcolumn(object):
    def __init__(self, node):
        self.node = node
        self._box = None

    def get_box(self):
        if self._box is None:
            self._box = bounds([n.pos for n in self.node])
        return self._box


class badgrid(object):
    def translate(self, shift):
        for node in self.nodelist: node.pos += shift


class goodcolumn(object):
    def __init__(self, node):
        self.node = node
        self._box = None

    def get_box(self):
        if self._box is None:
            self._box = bounds([n.pos for n in self.node])
        return self._box


class goodgrid(object):
    def translate(self, shift):
        for node in self.nodelist: node.pos += shift
        for col in self.columnlist: col._box = None
